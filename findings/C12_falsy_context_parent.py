import anyio
from asphalt.core import Context, current_context


class Batch(Context):
    """A context that is also an (empty) container: falsy."""

    def __len__(self):
        return 0


async def main():
    problems = []
    async with Batch() as outer:
        seen = {}

        async def svc():
            seen["c"] = current_context()

        async with Context() as request:
            await outer.start_service_task(svc, "svc")
            await anyio.sleep(0.01)
            explicit = Context(outer)
            if explicit.parent is not outer:
                problems.append(f"Context(outer).parent is {explicit.parent!r}, not the explicitly given parent")
        if seen["c"].parent is not outer:
            problems.append("service task started on `outer` runs in a context whose parent is the request context")
        # open child not reported
        child = Context()
        await child.__aenter__()
    return problems, child


try:
    print(anyio.run(main))
except BaseException as e:
    print("raised", repr(e))
