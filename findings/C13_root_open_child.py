"""Native reproduction (asyncio and trio) of the known finding for C13:
a ROOT context left by an exception (or by cancellation) while a child context entered from
it is still open does not report the open child; a nested context does (RuntimeError).
Run: /venv/bin/python findings/C13_root_open_child.py"""
import anyio
from asphalt.core import Context


async def scenario(nested: bool, cancel: bool) -> str:
    async with anyio.create_task_group() as tg:
        release, entered = anyio.Event(), anyio.Event()
        result = "?"

        async def block():
            nonlocal result
            with anyio.CancelScope() as scope:
                try:
                    async with Context() as parent:
                        async def holder():
                            async with Context(parent):
                                entered.set()
                                await release.wait()

                        tg.start_soon(holder)
                        await entered.wait()
                        if cancel:
                            scope.cancel()
                            await anyio.sleep(0)
                        raise ValueError("block failed")
                except BaseException as e:
                    result = type(e).__name__
                    if cancel and not isinstance(e, (ValueError, RuntimeError)):
                        raise

        if nested:
            async with Context():
                await block()
        else:
            await block()
        release.set()
        return result


for backend in ("asyncio", "trio"):
    for nested in (False, True):
        for cancel in (False, True):
            r = anyio.run(scenario, nested, cancel, backend=backend)
            print(f"{backend:8} parent={'nested' if nested else 'root  '} left by {'cancellation' if cancel else 'exception   '}: exit raised {r}"
                  + ("   <- open child NOT reported" if r != "RuntimeError" else ""))
