"""Native replay of a recorded counterexample (no CrossHair involved).

    python -m symkit.replay <replay.json> [--profile]

Re-executes the harness body on the symsched backend with the recorded tape of decisions
and the recorded concrete arguments, against the asphalt source under test.
Exit 1 + "REPRODUCED <sig>" if the oracle fails again, 0 + "NOT-REPRODUCED" otherwise.
"""
from __future__ import annotations

import json
import logging
import os
import sys

from . import api, choose


class _Args(dict):
    def __missing__(self, key):
        return 0


def run_record(rec: dict, profile: bool = False):
    from .worker import load_harness

    h = load_harness(rec["module"], rec["harness"])
    logging.disable(logging.CRITICAL)
    entered = set()
    if profile:
        src = os.path.abspath(api.asphalt_src())

        def prof(frame, event, arg):
            if event == "call":
                fn = frame.f_code.co_filename
                if fn.startswith(src):
                    entered.add(f"{os.path.basename(fn)}:{frame.f_code.co_qualname}")

        sys.setprofile(prof)
    try:
        choose.STATE.reset(rec.get("tape") or [])
        res = h.fn(_Args(rec.get("args") or {}), rec.get("tier", "quick"))
    finally:
        if profile:
            sys.setprofile(None)
    return res, sorted(entered)


def main(argv):
    path = argv[0]
    profile = "--profile" in argv
    with open(path) as f:
        rec = json.load(f)
    if rec.get("asphalt_src") and "ASPHALT_SRC" not in os.environ and os.path.isdir(rec["asphalt_src"]):
        os.environ["ASPHALT_SRC"] = rec["asphalt_src"]
    res, entered = run_record(rec, profile)
    out = {
        "ok": bool(res.ok),
        "sig": res.sig,
        "detail": res.detail,
        "scenario": res.summary,
        "entered": entered,
    }
    print(json.dumps(out, default=repr))
    if not res.ok:
        print(f"REPRODUCED {res.sig}")
        return 1
    print("NOT-REPRODUCED")
    return 0


if __name__ == "__main__":
    sys.exit(main(sys.argv[1:]))
