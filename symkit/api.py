"""Harness description API used by /verif/harness/cNN.py modules."""
from __future__ import annotations

import os
import sys
from dataclasses import dataclass, field
from typing import Any, Callable


def asphalt_src() -> str:
    return os.environ.get("ASPHALT_SRC", "/repo/src")


def use_repo_source() -> None:
    """Make sure `import asphalt` reads the tree under test (default /repo/src)."""
    src = asphalt_src()
    if sys.path[0] != src:
        try:
            sys.path.remove(src)
        except ValueError:
            pass
        sys.path.insert(0, src)
    mod = sys.modules.get("asphalt.core")
    if mod is not None and not os.path.abspath(mod.__file__).startswith(os.path.abspath(src)):
        raise RuntimeError(f"asphalt already imported from {mod.__file__}, wanted {src}")


@dataclass
class P:
    """A symbolic scalar parameter: integer in lo..hi (inclusive), or a short string."""

    name: str
    lo: int = 0
    hi: int = 1
    type: str = "int"  # "int" | "bool" | "str"
    maxlen: int = 0  # for str

    def pre(self) -> str:
        if self.type == "int":
            return f"{self.lo} <= {self.name} <= {self.hi}"
        if self.type == "str":
            return f"len({self.name}) <= {self.maxlen}"
        return "True"

    def size(self) -> int:
        return self.hi - self.lo + 1 if self.type == "int" else 2


@dataclass
class Result:
    ok: Any  # bool (may be a symbolic bool in ds harnesses)
    sig: str = ""  # failure signature: short, structured, stable
    detail: str = ""
    nontrivial: bool = True
    summary: Any = None  # decoded scenario, for evidence samples


def OK(summary=None, nontrivial=True) -> Result:
    return Result(True, "", "", nontrivial, summary)


def FAIL(sig: str, detail: Any = "", summary=None) -> Result:
    return Result(False, sig, str(detail)[:2000], True, summary)


@dataclass
class Harness:
    prop: str
    name: str
    fn: Callable[[dict, str], Result]  # (args, tier) -> Result
    params: Callable[[str], list[P]]  # tier -> parameters
    mode: str = "cs"  # "cs" choice-symbolic (hybrid) | "ds" data-symbolic (full tracing)
    title: str = ""
    extra_pre: Callable[[str], list[str]] = lambda tier: []
    cube: Callable[[str], int] = lambda tier: 0  # number of leading params to split on
    cond_timeout: Callable[[str], int] = lambda tier: 240 if tier == "quick" else 3000
    path_timeout: int = 60
    tree_check: bool = True
    tiers: tuple = ("quick", "thorough")
    bound_text: Callable[[str], str] = lambda tier: ""
    outside: str = ""
    stubs: tuple = ()
    oracle: str = ""
    realize_samples: bool = False  # cs harnesses whose args carry data (durations)
    hunting_only: bool = False  # result never counts towards "exhaustive"

    def key(self) -> str:
        return f"{self.prop}-{self.name}"


REGISTRY: dict[str, list[Harness]] = {}


def register(h: Harness) -> Harness:
    REGISTRY.setdefault(h.prop, []).append(h)
    return h
