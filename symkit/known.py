"""Known findings: /verif/known_findings.json (committed; never written at run time).

Entries: {"property": "C06", "signature": "<exact failure signature>", "status": "known"|"fixed",
          "what": "...", "commit": "<fix commit, for fixed>"}
Only status == "known" suppresses a violation (it is reported as KNOWN-FINDING instead);
"fixed" entries are documentation and suppress nothing.
"""
import json
import os

_PATH = os.path.join(os.path.dirname(os.path.dirname(os.path.abspath(__file__))), "known_findings.json")
_cache = None


def load():
    global _cache
    if _cache is None:
        try:
            with open(_PATH) as f:
                _cache = json.load(f)["findings"]
        except FileNotFoundError:
            _cache = []
    return _cache


def match(prop: str, sig: str):
    for e in load():
        if e.get("status") == "known" and e["property"] == prop and e["signature"] == sig:
            return e
    return None
