"""Symbolic choices.

`pick(c, n)` turns a (possibly symbolic) choice integer into a concrete arm 0..n-1 by an
explicit cascade of comparisons, every one of which is a z3-checked branch in CrossHair's
path tree.  In choice-symbolic harnesses the scenario itself runs with tracing suspended;
tracing is resumed only inside the cascade.  Every decision is logged as (arm, arity) so
that the driver can re-check, independently of CrossHair's bookkeeping, that the set of
executed paths forms a complete decision tree, and so that a failing path can be replayed
natively from its tape of arms.
"""
from __future__ import annotations

import contextlib

try:
    from crosshair.statespace import optional_context_statespace as _space
    from crosshair.tracers import NoTracing, ResumedTracing, is_tracing
except ImportError:  # pragma: no cover - native replay without CrossHair
    _space = None


class PathState:
    """Per-path record (reset by the worker/replayer at the start of every path)."""

    def __init__(self):
        self.reset(None)

    def reset(self, replay):
        self.decisions: list[tuple[int, int]] = []
        self.replay = list(replay) if replay is not None else None
        self.replay_pos = 0
        self.notes: list[str] = []


STATE = PathState()


def _in_space() -> bool:
    return _space is not None and _space() is not None


def resumed():
    if _in_space() and not is_tracing():
        return ResumedTracing()
    return contextlib.nullcontext()


def untraced():
    if _in_space() and is_tracing():
        return NoTracing()
    return contextlib.nullcontext()


def is_concrete(c) -> bool:
    # under tracing CrossHair makes type() lie about symbolics: ask with tracing off
    with untraced():
        return type(c) is int or type(c) is bool


def pick(c, n: int) -> int:
    """Concretise choice `c` to an arm in 0..n-1 (values >= n-1 all mean arm n-1)."""
    if n <= 1:
        return 0
    st = STATE
    if st.replay is not None:
        if st.replay_pos < len(st.replay):
            v = st.replay[st.replay_pos]
            st.replay_pos += 1
        else:
            v = 0
        v = min(max(int(v), 0), n - 1)
    elif is_concrete(c):
        v = min(max(int(c), 0), n - 1)
        st.decisions.append((v, -n))  # forced: not a solver branch
        return v
    else:
        with resumed():
            v = n - 1
            for i in range(n - 1):
                if c == i:
                    v = i
                    break
    st.decisions.append((v, n))
    return v


def flag(c) -> bool:
    return pick(c, 2) == 1


def sym_lt(a, b) -> bool:
    """Branch on a < b for possibly symbolic integers; logged as a binary decision."""
    st = STATE
    if st.replay is not None:
        if st.replay_pos < len(st.replay):
            v = int(st.replay[st.replay_pos])
            st.replay_pos += 1
        else:
            v = 0
    elif is_concrete(a) and is_concrete(b):
        v = 1 if a < b else 0
    else:
        with resumed():
            v = 1 if a < b else 0
    st.decisions.append((v, 2))
    return bool(v)


class Tape:
    """Scheduler chooser driven by symbolic integers.

    prefix mode : the first len(vars) decisions (with more than one runnable task) are
                  arbitrary, FIFO afterwards.
    Decisions with a single runnable task never reach the chooser.
    """

    def __init__(self, vars):
        self.vars = list(vars)
        self.pos = 0
        self.taken: list[int] = []

    def __call__(self, n: int) -> int:
        i = self.pos
        self.pos += 1
        if i < len(self.vars):
            v = pick(self.vars[i], n)
        else:
            v = 0
        self.taken.append(v)
        return v


def sym_eq(a, b) -> bool:
    """Branch on a == b for possibly symbolic integers; logged as a binary decision."""
    st = STATE
    if st.replay is not None:
        if st.replay_pos < len(st.replay):
            v = int(st.replay[st.replay_pos])
            st.replay_pos += 1
        else:
            v = 0
    elif is_concrete(a) and is_concrete(b):
        v = 1 if a == b else 0
    else:
        with resumed():
            v = 1 if a == b else 0
    st.decisions.append((v, 2))
    return bool(v)


class DeviationTape:
    """Preemption bounding: FIFO everywhere except at len(devs) decision points.
    devs = [(gap_var, arm_var), ...]: the j-th deviation happens gap_var decisions after the
    previous one (gap_var in 0..horizon; the value `horizon` means "never"), and takes the
    non-FIFO arm 1 + arm_var (clamped to the runnable set).  Independent variable ranges:
    no ordering precondition is needed."""

    def __init__(self, devs, horizon: int):
        self.devs = list(devs)
        self.horizon = horizon
        self.pos = 0
        self.since = 0  # decisions since the previous deviation
        self.next_dev = 0
        self.taken: list[int] = []

    def __call__(self, n: int) -> int:
        self.pos += 1
        v = 0
        if self.next_dev < len(self.devs) and self.since < self.horizon:
            gvar, avar = self.devs[self.next_dev]
            if sym_eq(gvar, self.since):
                v = 1 + pick(avar, n - 1)
                self.next_dev += 1
                self.since = -1
        self.since += 1
        self.taken.append(v)
        return v
