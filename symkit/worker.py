"""Analyse one cube of one harness with CrossHair (z3) and return a result dict.

A cube fixes the leading parameters of a harness to constants by adding equalities to the
precondition.  The harness wrapper is generated as a source file (CrossHair reads PEP-316
contracts from source) into the build directory, imported, and handed to
crosshair.core_and_libs.analyze_function / run_checkables.
"""
from __future__ import annotations

import hashlib
import importlib
import importlib.util
import os
import sys
import time
import traceback

from . import api, choose, known

ROOT = os.path.dirname(os.path.dirname(os.path.abspath(__file__)))


class _W:
    """Per-cube bookkeeping, filled in by run_path (one call per explored path)."""

    def __init__(self):
        self.reset(None, None, False)

    def reset(self, harness, tier, twin):
        self.harness = harness
        self.tier = tier
        self.twin = twin
        self.paths = 0
        self.nontrivial = set()
        self.seqs = set()
        self.samples = []
        self.failures = []
        self.known_hits = {}
        self.errors = []


W = _W()
Z3 = {"checks": 0, "time": 0.0, "patched": False}


def _patch_z3():
    if Z3["patched"]:
        return
    import z3

    orig = z3.Solver.check

    def check(self, *a, **kw):
        t = time.perf_counter()
        try:
            return orig(self, *a, **kw)
        finally:
            Z3["checks"] += 1
            Z3["time"] += time.perf_counter() - t

    z3.Solver.check = check
    Z3["patched"] = True


def _realize(args: dict) -> dict:
    from crosshair.core import deep_realize

    out = {}
    with choose.resumed():
        for k, v in args.items():
            try:
                out[k] = deep_realize(v)
            except Exception:
                out[k] = None
    return out


def run_path(args: dict):
    """Called by the generated wrapper, under CrossHair tracing, once per path."""
    from crosshair.tracers import NoTracing

    h = W.harness
    W.paths += 1
    choose.STATE.reset(None)
    if h.mode == "cs":
        with NoTracing():
            res = h.fn(args, W.tier)
            ok = bool(res.ok)
    else:
        res = h.fn(args, W.tier)
        ok = True if res.ok else False  # symbolic bool: the solver decides this branch
    with NoTracing():
        seq = tuple(choose.STATE.decisions)
        W.seqs.add(seq)
        if res.nontrivial:
            W.nontrivial.add(seq if (h.mode == "cs" and h.tree_check) else (seq, W.paths))
        if len(W.samples) < 3 and res.summary is not None:
            W.samples.append(
                {
                    "decisions": [a for a, _ in seq],
                    "args": _realize(args) if h.mode == "ds" or h.realize_samples else None,
                    "scenario": res.summary,
                }
            )
        if W.twin:
            return not res.nontrivial
        if ok:
            return True
        hit = known.match(h.prop, res.sig)
        if hit is not None:
            d = W.known_hits.setdefault(res.sig, {"count": 0, "what": hit.get("what", "")})
            d["count"] += 1
            return True
        W.failures.append(
            {
                "sig": res.sig,
                "detail": res.detail,
                "tape": [a for a, _ in seq],
                "args": _realize(args),
                "scenario": res.summary,
            }
        )
        return False


def profile_sample(h, sample) -> list:
    """Native re-run of one explored path under sys.setprofile: which asphalt functions
    does this harness actually execute (= are symbolically executed on every path)."""
    src = os.path.abspath(api.asphalt_src())
    entered = set()

    def prof(frame, event, arg):
        if event == "call":
            fn = frame.f_code.co_filename
            if fn.startswith(src):
                entered.add(f"{os.path.basename(fn)}:{frame.f_code.co_qualname}")

    class _Args(dict):
        def __missing__(self, key):
            return 0

    choose.STATE.reset(sample["decisions"])
    sys.setprofile(prof)
    try:
        h.fn(_Args(sample.get("args") or {}), W.tier)
    except Exception:
        pass
    finally:
        sys.setprofile(None)
        choose.STATE.reset(None)
    return sorted(entered)


def tree_gaps(seqs) -> list:
    """Check that the executed decision sequences form a complete decision tree.
    Returns a list of problems (empty = complete)."""
    problems = []
    trie: dict = {}
    for seq in seqs:
        node = trie
        for arm, arity in seq:
            if arity < 0:  # concrete (cube-fixed) choice: not a solver branch
                arity = -arity
                node["forced"] = True
            ent = node.setdefault("kids", {})
            if "arity" in node and node["arity"] != arity:
                problems.append(("arity-mismatch", seq))
            node["arity"] = arity
            node = ent.setdefault(arm, {})
        if node.get("leaf"):
            pass
        node["leaf"] = True

    def walk(node, prefix):
        if node.get("leaf") and node.get("kids"):
            problems.append(("leaf-with-children", tuple(prefix)))
        kids = node.get("kids")
        if kids:
            for arm in range(node["arity"]):
                if arm not in kids:
                    if not node.get("forced"):
                        problems.append(("missing-arm", tuple(prefix), arm))
                else:
                    walk(kids[arm], prefix + [arm])

    walk(trie, [])
    return problems[:10]


def source_hashes() -> dict:
    src = os.path.join(api.asphalt_src(), "asphalt", "core")
    out = {}
    for fn in sorted(os.listdir(src)):
        if fn.endswith(".py"):
            with open(os.path.join(src, fn), "rb") as f:
                out[fn] = hashlib.sha256(f.read()).hexdigest()[:16]
    return out


def load_harness(module: str, name: str) -> api.Harness:
    api.use_repo_source()
    if ROOT not in sys.path:
        sys.path.insert(1, ROOT)
    mod = importlib.import_module(module)
    for h in mod.HARNESSES:
        if h.name == name:
            return h
    raise KeyError(f"{module}:{name}")


def wrapper_source(h: api.Harness, tier: str, cube: dict) -> tuple[str, str]:
    """Cube parameters become module-level constants (so the remaining precondition may
    still mention them); the others stay symbolic parameters of the checked function."""
    params = h.params(tier)
    free = [p for p in params if p.name not in cube]
    sig = ", ".join(
        f"{p.name}: {'str' if p.type == 'str' else 'bool' if p.type == 'bool' else 'int'}"
        for p in free
    )
    pre = [p.pre() for p in free if p.pre() != "True"] + list(h.extra_pre(tier))
    doc = "\n".join(f"    pre: {line}" for line in pre) or "    pre: True"
    args = ", ".join(f"{p.name!r}: {p.name}" for p in params)
    consts = "".join(f"{k} = {v!r}\n" for k, v in cube.items())
    src = (
        "from symkit.worker import run_path\n\n"
        f"{consts}\n\n"
        f"def h({sig}) -> bool:\n"
        f'    """\n{doc}\n    post: _\n    """\n'
        f"    return run_path({{{args}}})\n"
    )
    shown = "; ".join(pre + [f"{k} == {v!r}" for k, v in cube.items()])
    return src, shown


def analyse_cube(spec: dict) -> dict:
    """spec: module, harness, tier, cube {name: value}, build_dir, twin, cond_timeout"""
    t0 = time.time()
    out = {
        "module": spec["module"],
        "harness": spec["harness"],
        "cube": spec["cube"],
        "twin": spec.get("twin", False),
    }
    try:
        _patch_z3()
        from crosshair.core_and_libs import analyze_function, run_checkables
        from crosshair.options import AnalysisOptionSet

        h = load_harness(spec["module"], spec["harness"])
        tier = spec["tier"]
        src, pre = wrapper_source(h, tier, spec["cube"])
        os.makedirs(spec["build_dir"], exist_ok=True)
        tag = "_".join(f"{k}{v}" for k, v in spec["cube"].items()) or "all"
        modname = f"cube_{h.prop}_{h.name}_{tier}_{tag}{'_twin' if spec.get('twin') else ''}".replace("-", "m")
        path = os.path.join(spec["build_dir"], modname + ".py")
        with open(path, "w") as f:
            f.write(src)
        sp = importlib.util.spec_from_file_location(modname, path)
        mod = importlib.util.module_from_spec(sp)
        sys.modules[modname] = mod
        sp.loader.exec_module(mod)

        W.reset(h, tier, spec.get("twin", False))
        z0, zt0 = Z3["checks"], Z3["time"]
        opts = AnalysisOptionSet(
            per_condition_timeout=float(spec.get("cond_timeout") or h.cond_timeout(tier)),
            per_path_timeout=float(h.path_timeout),
            report_all=True,
        )
        msgs = list(run_checkables(analyze_function(mod.h, opts)))
        states = [m.state.name for m in msgs]
        if spec.get("profile") and W.samples and not spec.get("twin"):
            out["entered"] = profile_sample(h, W.samples[0])
        out.update(
            pre=pre,
            states=states,
            messages=[m.message[:500] for m in msgs],
            paths=W.paths,
            distinct=len(W.seqs),
            nontrivial=len(W.nontrivial),
            samples=W.samples,
            failures=W.failures[:3],
            known_hits=W.known_hits,
            z3_checks=Z3["checks"] - z0,
            z3_time=round(Z3["time"] - zt0, 3),
            tree_gaps=[repr(g) for g in tree_gaps(W.seqs)]
            if (h.mode == "cs" and h.tree_check and states == ["CONFIRMED"])
            else [],
        )
    except BaseException as e:  # harness error, never a verdict
        out["error"] = f"{type(e).__name__}: {e}\n{traceback.format_exc()[-3000:]}"
    out["wall"] = round(time.time() - t0, 3)
    return out


def main(argv):
    """python -m symkit.worker <specs.json> <out.jsonl>: analyse a chunk of cubes, appending
    one JSON line per finished cube (so the driver knows what was done if we crash)."""
    import json

    from symkit import worker as _real  # not __main__: the generated wrappers import symkit.worker

    with open(argv[0]) as f:
        specs = json.load(f)
    with open(argv[1], "a") as out:
        for i, spec in enumerate(specs):
            out.write(json.dumps({"started": i}) + "\n")
            out.flush()
            res = _real.analyse_cube(spec)
            res["index"] = i
            out.write(json.dumps(res, default=repr) + "\n")
            out.flush()
    return 0


if __name__ == "__main__":
    sys.exit(main(sys.argv[1:]))
