"""Check driver: cubes -> CrossHair workers (16 processes) -> native replay -> evidence.

    python -m symkit.driver C06 --tier quick|thorough [--only H1,H2] [--jobs 16]

Exit codes: 0 = property held on everything explored (KNOWN-FINDING lines may be printed),
            1 = violation (line "VIOLATION property=<id> replay=<path>"),
            2 = harness error / inconclusive infrastructure problem (never a verdict).
"""
from __future__ import annotations

import argparse
import importlib
import itertools
import json
import os
import shutil
import subprocess
import sys
import time

from . import api

ROOT = os.path.dirname(os.path.dirname(os.path.abspath(__file__)))


def _run_chunk(chunk_id, specs, build_dir, hard_timeout):
    """Analyse a chunk of cubes in one worker subprocess; survive crashes and hangs of the
    worker (the cube in flight becomes a harness error, the rest is resubmitted)."""
    results = []
    todo = list(specs)
    attempt = 0
    while todo:
        attempt += 1
        sp = os.path.join(build_dir, f"chunk{chunk_id}_{attempt}.json")
        op = os.path.join(build_dir, f"chunk{chunk_id}_{attempt}.jsonl")
        with open(sp, "w") as f:
            json.dump(todo, f)
        open(op, "w").close()
        try:
            p = subprocess.run(
                [sys.executable, "-m", "symkit.worker", sp, op],
                cwd=ROOT,
                env=dict(os.environ, PYTHONPATH=ROOT),
                capture_output=True,
                text=True,
                timeout=hard_timeout,
            )
            tail = (p.stderr or "")[-1500:]
            rc = p.returncode
        except subprocess.TimeoutExpired:
            tail, rc = f"worker exceeded the hard timeout of {hard_timeout}s", -9
        done = {}
        started = -1
        with open(op) as f:
            for line in f:
                try:
                    d = json.loads(line)
                except ValueError:
                    continue
                if "started" in d:
                    started = d["started"]
                else:
                    done[d["index"]] = d
        for i in sorted(done):
            results.append(done[i])
        if len(done) == len(todo):
            break
        # the worker died or hung on cube `started`
        bad = max(started, 0)
        if bad not in done:
            spec = todo[bad]
            results.append(
                {
                    "module": spec["module"],
                    "harness": spec["harness"],
                    "cube": spec["cube"],
                    "twin": spec.get("twin", False),
                    "error": f"worker process died or hung (rc={rc}) while analysing this cube: {tail}",
                    "wall": 0,
                }
            )
        todo = [s for i, s in enumerate(todo) if i not in done and i != bad]
    return results


def run_specs(all_specs, jobs, build_dir):
    from concurrent.futures import ThreadPoolExecutor, as_completed

    n = len(all_specs)
    size = max(1, min(8, n // (jobs * 3)))
    chunks = [all_specs[i : i + size] for i in range(0, n, size)]
    hard = lambda ch: int(sum((s.get("cond_timeout") or s.get("_cond_timeout") or 300) for s in ch) * 2.5 + 120)
    with ThreadPoolExecutor(jobs) as ex:
        futs = [ex.submit(_run_chunk, i, ch, build_dir, hard(ch)) for i, ch in enumerate(chunks)]
        for fut in as_completed(futs):
            for res in fut.result():
                yield res


def cube_specs(h: api.Harness, module: str, tier: str, build_dir: str):
    params = h.params(tier)
    k = h.cube(tier)
    lead = params[:k]
    for p in lead:
        assert p.type == "int", "cube parameters must be integers"
    specs = []
    for combo in itertools.product(*[range(p.lo, p.hi + 1) for p in lead]):
        specs.append(
            {
                "module": module,
                "harness": h.name,
                "tier": tier,
                "cube": {p.name: v for p, v in zip(lead, combo)},
                "build_dir": build_dir,
                "_cond_timeout": h.cond_timeout(tier),
            }
        )
    return specs, lead


def partition_check(lead, specs) -> tuple[bool, float]:
    """One z3 query: box(lead params) and not(any cube) is unsat; cubes pairwise distinct."""
    import z3

    t = time.time()
    if not lead:
        return len(specs) == 1, 0.0
    xs = {p.name: z3.Int(p.name) for p in lead}
    box = z3.And(*[z3.And(xs[p.name] >= p.lo, xs[p.name] <= p.hi) for p in lead])
    cubes = [z3.And(*[xs[k] == v for k, v in s["cube"].items()]) for s in specs]
    s = z3.Solver()
    s.add(box, z3.Not(z3.Or(*cubes)))
    covered = s.check() == z3.unsat
    distinct = len({tuple(sorted(s_["cube"].items())) for s_ in specs}) == len(specs)
    return covered and distinct, time.time() - t


def run_check(prop: str, tier: str, only=None, jobs: int = 16, seed: int = 0) -> int:
    t0 = time.time()
    api.use_repo_source()
    if ROOT not in sys.path:
        sys.path.insert(1, ROOT)
    module = f"harness.{prop.lower()}"
    mod = importlib.import_module(module)
    harnesses = [h for h in mod.HARNESSES if tier in h.tiers and (not only or h.name in only)]
    build_dir = os.path.join(os.environ.get("VERIF_BUILD_DIR") or os.path.join(ROOT, ".build"), f"{prop}-{tier}")
    shutil.rmtree(build_dir, ignore_errors=True)
    os.makedirs(build_dir, exist_ok=True)
    ev_dir = os.environ.get("VERIF_EVIDENCE_DIR") or os.path.join(ROOT, "evidence")
    replay_dir = os.path.join(ev_dir, "replays")
    os.makedirs(replay_dir, exist_ok=True)

    all_specs = []
    per_h = {}
    errors = []
    for h in harnesses:
        specs, lead = cube_specs(h, module, tier, build_dir)
        ok, zt = partition_check(lead, specs)
        if not ok:
            errors.append(f"{h.key()}: cubes do not partition the precondition")
        specs[0]["profile"] = True
        twin = dict(specs[0], twin=True, cond_timeout=60, cube={})
        twin.pop("profile", None)
        per_h[h.name] = {
            "harness": h,
            "cubes": [],
            "twin": None,
            "partition_query_s": round(zt, 4),
            "n_cubes": len(specs),
        }
        all_specs += specs + [twin]

    # harnesses with few, long-running cubes first so that they overlap with the many small ones
    all_specs.sort(key=lambda sp: per_h[sp["harness"]]["n_cubes"])
    for res in run_specs(all_specs, jobs, build_dir):
        slot = per_h[res["harness"]]
        if res.get("twin"):
            slot["twin"] = res
        else:
            slot["cubes"].append(res)

    violations = []
    known_hits: dict[str, dict] = {}
    inconclusive = []
    total_paths = total_nontrivial = total_checks = 0
    total_ztime = 0.0
    ev_harnesses = []
    samples = []
    entered = set()
    to_replay = []
    for name, slot in per_h.items():
        h = slot["harness"]
        confirmed = 0
        for c in sorted(slot["cubes"], key=lambda c: sorted(c["cube"].items())):
            if "error" in c:
                errors.append(f"{h.key()} cube {c['cube']}: {c['error']}")
                continue
            total_paths += c["paths"]
            total_nontrivial += c["nontrivial"]
            total_checks += c["z3_checks"]
            total_ztime += c["z3_time"]
            entered.update(c.get("entered", []))
            for sig, d in c["known_hits"].items():
                e = known_hits.setdefault(sig, {"count": 0, "what": d["what"]})
                e["count"] += d["count"]
            st = c["states"]
            if st == ["CONFIRMED"]:
                if c["tree_gaps"]:
                    errors.append(
                        f"{h.key()} cube {c['cube']}: CONFIRMED but decision tree incomplete: {c['tree_gaps'][:3]}"
                    )
                else:
                    confirmed += 1
            elif "POST_FAIL" in st:
                if not c["failures"]:
                    errors.append(f"{h.key()} cube {c['cube']}: POST_FAIL without a recorded failure: {c['messages']}")
                for f in c["failures"]:
                    to_replay.append((h, c, f))
            elif (st == ["CANNOT_CONFIRM"] or st == []) and h.hunting_only:
                pass  # bug hunting only: "not confirmed" is the expected outcome and no part of the verdict
            elif st == ["CANNOT_CONFIRM"] or st == []:
                inconclusive.append(f"{h.key()} cube {c['cube']}: not confirmed after {c['paths']} paths ({c['messages']})")
            else:
                errors.append(f"{h.key()} cube {c['cube']}: unexpected CrossHair result {st}: {c['messages']}")
            if len(samples) < 6:
                for s in c["samples"][:1]:
                    samples.append({"harness": h.key(), **s})
        tw = slot["twin"]
        twin_ok = tw is not None and "error" not in tw and "POST_FAIL" in tw.get("states", [])
        if not twin_ok:
            errors.append(f"{h.key()}: reachability twin did not fail (vacuous harness?): {tw and (tw.get('states'), tw.get('error'))}")
        ev_harnesses.append(
            {
                "name": h.key(),
                "title": h.title,
                "mode": "choice-symbolic (hybrid)" if h.mode == "cs" else "data-symbolic (full tracing)",
                "bound": h.bound_text(tier),
                "precondition": slot["cubes"][0].get("pre", "") if slot["cubes"] else "",
                "oracle": h.oracle,
                "outside_the_claim": h.outside,
                "stubs": list(h.stubs),
                "cubes": slot["n_cubes"],
                "cubes_confirmed": confirmed,
                "paths": sum(c.get("paths", 0) for c in slot["cubes"]),
                "nontrivial_paths": sum(c.get("nontrivial", 0) for c in slot["cubes"]),
                "z3_queries": sum(c.get("z3_checks", 0) for c in slot["cubes"]),
                "z3_time_s": round(sum(c.get("z3_time", 0) for c in slot["cubes"]), 2),
                "cpu_wall_s": round(sum(c.get("wall", 0) for c in slot["cubes"]), 1),
                "twin_fails_as_required": twin_ok,
                "partition_query_s": slot["partition_query_s"],
                "bug_hunting_only": h.hunting_only,
                "verdict": "CONFIRMED over all paths in every cube"
                if confirmed == slot["n_cubes"]
                else "see cubes",
            }
        )

    # native replay of counterexamples (distinct signatures only)
    seen = set()
    n_rep = 0
    for h, c, f in to_replay:
        if f["sig"] in seen or len(seen) >= 6:
            continue
        seen.add(f["sig"])
        n_rep += 1
        path = os.path.join(replay_dir, f"{prop}-{h.name}-{n_rep}.json")
        rec = {
            "property": prop,
            "module": module,
            "harness": h.name,
            "tier": tier,
            "cube": c["cube"],
            "args": f["args"],
            "tape": f["tape"],
            "failure_signature": f["sig"],
            "detail": f["detail"],
            "scenario": f["scenario"],
            "asphalt_src": api.asphalt_src(),
            "how_to_replay": f"cd /verif && bin/check --replay {path}",
        }
        with open(path, "w") as fh:
            json.dump(rec, fh, indent=1, default=repr)
        p = subprocess.run(
            [sys.executable, "-m", "symkit.replay", path],
            cwd=ROOT,
            capture_output=True,
            text=True,
            timeout=300,
            env=dict(os.environ, PYTHONPATH=ROOT),
        )
        if p.returncode == 1 and "REPRODUCED" in p.stdout:
            violations.append((f["sig"], path, f["detail"]))
        else:
            errors.append(
                f"{h.key()}: counterexample {f['sig']} did not reproduce natively "
                f"(rc={p.returncode}): {p.stdout[-300:]} {p.stderr[-300:]}"
            )

    exhaustive = (
        not errors
        and not inconclusive
        and not violations
        and all(e["cubes_confirmed"] == e["cubes"] for e in ev_harnesses if not e["bug_hunting_only"])
    )
    from .worker import source_hashes

    wall = time.time() - t0
    evidence = {
        "property_id": prop,
        "tier": tier,
        "seed": seed,
        "level": "other",
        "coverage": {
            "explanation": (
                "Bounded symbolic execution of the real asphalt code with CrossHair/z3 on the symsched "
                "model backend: harness parameters (program shape, fault placement, schedule prefix, data) "
                "are solver variables; per cube CrossHair reports CONFIRMED only when no feasible branch is "
                "left unexplored, which is the claim 'holds for every value inside the stated bound'. "
                "Counterexamples are replayed natively before being reported."
            ),
            "evaluations": total_paths,
            "distinct_nontrivial": total_nontrivial,
            "rule": "one evaluation = one feasible path of the harness (a distinct vector of concretised choices); "
            "non-trivial = the oracle compared at least one real observation (per-harness rule in the harness source)",
            "samples": samples,
            "exhaustive": exhaustive,
            "harnesses": ev_harnesses,
            "queries_discharged": total_checks,
            "solver_time_s": round(total_ztime, 2),
            "functions_encoded": sorted(entered),
            "source_sha256_16": source_hashes(),
            "asphalt_src": api.asphalt_src(),
            "inconclusive": inconclusive,
            "harness_errors": errors,
            "known_findings_hit": known_hits,
            "violations": [{"signature": s, "replay": p, "detail": d[:500]} for s, p, d in violations],
        },
        "assumptions": [
            "symsched models anyio's documented (trio-like) semantics; validated by running /repo/tests on it",
            "CrossHair's path-tree exhaustion bookkeeping and z3 are trusted (cs harnesses: decision-tree completeness re-checked by the driver)",
            "oracles are reference models written from the property statement",
        ]
        + sorted({s for e in ev_harnesses for s in e["stubs"]}),
        "wall_s": round(wall, 2),
        "violations": len(violations),
    }
    os.makedirs(ev_dir, exist_ok=True)
    with open(os.path.join(ev_dir, f"{prop}.json"), "w") as fh:
        json.dump(evidence, fh, indent=1, default=repr)

    for e in ev_harnesses:
        print(
            f"[{e['name']}] cubes {e['cubes_confirmed']}/{e['cubes']} confirmed, paths {e['paths']}, "
            f"non-trivial {e['nontrivial_paths']}, z3 queries {e['z3_queries']} ({e['z3_time_s']} s), twin "
            f"{'ok' if e['twin_fails_as_required'] else 'BAD'}"
        )
    for sig, d in known_hits.items():
        print(f"KNOWN-FINDING: property={prop} {sig} -- {d['what']} ({d['count']} paths)")
    for line in inconclusive:
        print("INCONCLUSIVE:", line)
    for sig, path, detail in violations:
        print(f"counterexample {sig}: {detail[:300]}")
        print(f"VIOLATION property={prop} replay={path}")
    for line in errors:
        print("HARNESS-ERROR:", line, file=sys.stderr)
    print(
        f"{prop} {tier}: paths={total_paths} nontrivial={total_nontrivial} z3={total_checks} "
        f"exhaustive={exhaustive} violations={len(violations)} wall={wall:.1f}s"
    )
    if violations:
        return 1
    if errors:
        return 2
    return 0


def main(argv=None):
    ap = argparse.ArgumentParser()
    ap.add_argument("prop")
    ap.add_argument("--tier", default=os.environ.get("VERIF_TIER", "quick"))
    ap.add_argument("--only", default="")
    ap.add_argument("--jobs", type=int, default=int(os.environ.get("VERIF_JOBS", "16")))
    a = ap.parse_args(argv)
    seed = int(os.environ.get("VERIF_SEED", "0") or 0)
    only = [x for x in a.only.split(",") if x]
    return run_check(a.prop, a.tier, only, a.jobs, seed)


if __name__ == "__main__":
    sys.exit(main())
