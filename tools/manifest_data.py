TECH = "bounded symbolic execution of the real code (CrossHair/z3), {what}; solver verdict CONFIRMED-over-all-paths per cube; counterexamples replayed natively"
NOTE = ("Trusted: CrossHair path-tree exhaustion + z3; the symsched model of anyio (validated by running /repo/tests on it); "
        "the reference-model oracle in the harness. Claim holds only inside the stated bound (evidence.coverage.harnesses[].bound).")

CHECKS = {
    "C01": {
        "text": "For every program inside the bound (n<=3 callbacks x kinds x raising classes x pass_exception x block endings x root/nested x outer handler) "
                "the real Context teardown agrees with the LIFO/once/one-at-a-time/outcome oracle; exhaustive within the bound, nothing outside it.",
        "note": NOTE,
        "technique": TECH.format(what="program shape and fault placement as solver variables"),
    },
}

_PENDING = "check not built yet in this round (planned: DESIGN.md section 7); not claimed until it runs"
NOT_APPLICABLE = {f"C{i:02d}": _PENDING for i in range(1, 20) if f"C{i:02d}" not in CHECKS}

NOTES = ("All checks: bin/check <ID> --tier quick|thorough. Exit 0 held / 1 VIOLATION (replayed natively first) / 2 harness error. "
         "Known findings: known_findings.json. Design: DESIGN.md.")
