TECH = "bounded symbolic execution of the real code (CrossHair/z3), {what}; solver verdict CONFIRMED-over-all-paths per cube; counterexamples replayed natively"
NOTE = ("Trusted: CrossHair path-tree exhaustion + z3; the symsched model of anyio (validated by running /repo/tests on it); "
        "the reference-model oracle in the harness. Claim holds only inside the stated bound (evidence.coverage.harnesses[].bound).")

def _c(text, what):
    return {"text": text, "note": NOTE, "technique": TECH.format(what=what)}


CHECKS = {
    "C01": _c("For every program inside the bound (n<=3 callbacks x kinds x raising classes x pass_exception x block endings x root/nested x outer handler; "
              "4 registration routes; registrations during teardown; cancellation at any checkpoint under all schedule prefixes) the real Context teardown "
              "agrees with the LIFO/once/one-at-a-time/outcome oracle; exhaustive within the bound, nothing outside it.",
              "program shape, fault placement and schedule prefix as solver variables"),
    "C02": _c("Every history of K operations (K=3 quick, 4 thorough) over <=3 real contexts is executed and compared, after every step and by final generating "
              "probes, with the snapshot-down/nothing-up-or-sideways model; exhaustive within the bound.",
              "operation histories as solver variables (R-history)"),
    "C03": _c("Every bounded history with conflicting and invalid adds keeps each context a partial function with stable identities and atomic failures; "
              "plus a fully symbolic lemma on the name rule (any Unicode string up to the length bound).",
              "operation histories as solver variables; symbolic strings for the name rule"),
    "C04": _c("Every bounded history with sync/async single/multi-type factories, and every schedule prefix of 2-3 racing lookups, yields one factory call and one "
              "object per (context, factory), owned by the requesting context.",
              "operation histories and schedule prefixes as solver variables"),
    "C18": _c("Every bounded history with listeners on all contexts yields exactly the model's event sequence per context.",
              "operation histories as solver variables"),
}

_PENDING = "check not built yet in this round (planned: DESIGN.md section 7); not claimed until it runs"
NOT_APPLICABLE = {f"C{i:02d}": _PENDING for i in range(1, 20) if f"C{i:02d}" not in CHECKS}

NOTES = ("All checks: bin/check <ID> --tier quick|thorough. Exit 0 held / 1 VIOLATION (replayed natively first) / 2 harness error. "
         "Known findings: known_findings.json. Design: DESIGN.md.")
