TECH = "bounded symbolic execution of the real code (CrossHair/z3), {what}; solver verdict CONFIRMED-over-all-paths per cube; counterexamples replayed natively"
NOTE = ("Trusted: CrossHair path-tree exhaustion + z3; the symsched model of anyio (validated by running /repo/tests on it); "
        "the reference-model oracle in the harness. Claim holds only inside the stated bound (evidence.coverage.harnesses[].bound).")

MORE = (" Further scenario families added in later rounds (fault, race, reuse and unusual-value harnesses; listed one by one with their bounds in "
        "evidence.coverage.harnesses[] and in DESIGN.md section 12.5) are each exhaustive within their own stated bound.")


def _c(text, what):
    return {"text": text + MORE, "note": NOTE, "technique": TECH.format(what=what)}


CHECKS = {
    "C01": _c("For every program inside the bound (n<=3 callbacks x kinds x raising classes x pass_exception x block endings x root/nested x outer handler; "
              "4 registration routes; registrations during teardown; cancellation at any checkpoint under all schedule prefixes) the real Context teardown "
              "agrees with the LIFO/once/one-at-a-time/outcome oracle; exhaustive within the bound, nothing outside it.",
              "program shape, fault placement and schedule prefix as solver variables"),
    "C02": _c("Every history of K operations (K=3 quick, 4 thorough) over <=3 real contexts is executed and compared, after every step and by final generating "
              "probes, with the snapshot-down/nothing-up-or-sideways model; exhaustive within the bound.",
              "operation histories as solver variables (R-history)"),
    "C03": _c("Every bounded history with conflicting and invalid adds keeps each context a partial function with stable identities and atomic failures; "
              "plus a fully symbolic lemma on the name rule (any Unicode string up to the length bound).",
              "operation histories as solver variables; symbolic strings for the name rule"),
    "C04": _c("Every bounded history with sync/async single/multi-type factories, and every schedule prefix of 2-3 racing lookups, yields one factory call and one "
              "object per (context, factory), owned by the requesting context.",
              "operation histories and schedule prefixes as solver variables"),
    "C18": _c("Every bounded history with listeners on all contexts yields exactly the model's event sequence per context.",
              "operation histories as solver variables"),
    "C05": _c("Every tree shape up to the bound, every method-presence pattern (incl. inherited methods) and every schedule prefix yields the documented "
              "phase order; every acyclic sibling wait pattern among three siblings completes.",
              "tree shape, component programs and schedule prefix as solver variables"),
    "C06": _c("For every placement of one matching publication among non-matching ones, every waiter timing and every deviation-bounded schedule the "
              "waiter is released exactly by the match with the published object; bursts of 0..60 unrelated publications never lose the wake-up.",
              "publication sequences, burst length and schedule deviations as solver variables"),
    "C07": _c("For every tree shape, failing component, phase and moment (and stalled service start-ups) startup aborts with the precise "
              "ComponentStartError and leaves nothing running; symbolic phase durations against a symbolic timeout obey the critical-path recurrence.",
              "fault placement and schedule deviations as solver variables; durations and timeout as symbolic integers (timer order decided by z3)"),
    "C08": _c("For every order of resources and service tasks, every teardown_action kind and every deviation-bounded schedule each task and its "
              "context are finished before earlier callbacks run; crashes escape the root context.",
              "program shape, teardown_action kind and schedule deviations as solver variables"),
    "C09": _c("For every combination of spawn API, spawn site, task outcome, handler verdict and deviation-bounded schedule, with an observer after every "
              "scheduler step, the handle set is exact, contexts hang under the factory's, teardown waits and errors are kept.",
              "task programs and schedule deviations as solver variables"),
    "C10": _c("Every history of 4-5 stream/dispatch operations over two subscribers and two channels delivers exactly the model's events per subscriber.",
              "operation histories as solver variables"),
    "C11": _c("For five kinds of owner classes, two instances plus a shallow copy, and every permutation of first accesses, all channels are distinct, "
              "correctly typed and deliver only their own events.",
              "owner kind and access permutation as solver variables"),
    "C12": _c("Every 3-4 step enter/leave/spawn program of a task, run beside a second task, children and a canceller under deviation-bounded schedules, "
              "keeps current_context() equal to the task's shadow stack top.",
              "per-task programs, cancellation moment and schedule deviations as solver variables"),
    "C13": _c("The full state x operation matrix (sequences of 2-3 operations in 7 lifecycle states) matches the allowed/forbidden table.",
              "lifecycle state and operation sequence as solver variables"),
    "C17": _c("merge_config agrees with the reference merge and leaves its arguments untouched for every pair of selector-built arguments; integer leaves "
              "symbolic in a second harness; symbolic keys in a bug-hunting-only harness.",
              "argument structure as solver variables; leaf integers and keys symbolic under full tracing"),
    "C19": _c("For every signature shape, annotation style, dependency state and call site the injected call equals the explicit-lookup call; two "
              "concurrent injected calls in different contexts stay separate under all schedule prefixes.",
              "signature/annotation/context-state selectors and schedule prefix as solver variables"),
    "C14": _c("For every combination of hard-coded and external values of two kwargs keys (scalar / None / nested dict), type spelling, alias form, "
              "config-only children and grandchild configuration the constructors receive the reference deep merge, names are remapped only as documented, "
              "and the configuration object is reusable and untouched.",
              "configuration layers and type/alias spellings as solver variables"),
    "C15": _c("For 24 kinds of endings, 0-2 children, 6 moments and deviation-bounded schedules all root teardown callbacks run once in reverse order before "
              "run_application returns/raises with the documented outcome; the CLI exit code is a symbolic integer in a data-symbolic harness.",
              "ending kind, moment and schedule deviations as solver variables; exit code as a symbolic integer through the real runner"),
    "C16": _c("For every generated layout of files, --set overrides, tags, service layouts and --service/ASPHALT_SERVICE combination the real click command "
              "hands run_application exactly the reference pipeline's result; every --set key of length <= 5 over {a,b,.,\\} is split as specified.",
              "configuration layouts and key characters as solver variables"),
}

_PENDING = "check not built yet in this round (planned: DESIGN.md section 7); not claimed until it runs"
NOT_APPLICABLE = {f"C{i:02d}": _PENDING for i in range(1, 20) if f"C{i:02d}" not in CHECKS}

NOTES = ("All checks: bin/check <ID> --tier quick|thorough. Exit 0 held / 1 VIOLATION (replayed natively first) / 2 harness error. "
         "Known findings: known_findings.json. Design: DESIGN.md.")
