#!/usr/bin/env python3
"""Regenerate /verif/MANIFEST.json from tools/manifest_data.py (claimed checks, N/A list)."""
import json
import os
import sys

ROOT = os.path.dirname(os.path.dirname(os.path.abspath(__file__)))
sys.path.insert(0, os.path.join(ROOT, "tools"))
import manifest_data as D  # noqa: E402

checks = []
for pid, c in D.CHECKS.items():
    checks.append(
        {
            "property_id": pid,
            "quick_cmd": f"bin/check {pid} --tier quick",
            "thorough_cmd": f"bin/check {pid} --tier thorough",
            "evidence_file": f"evidence/{pid}.json",
            "replay_cmd_template": "bin/check --replay {path}",
            "engine": "symkit",
            "level_claimed": {
                "category": "other",
                "text": c["text"],
                "design_ref": c.get("design_ref", "DESIGN.md section 7"),
            },
            "level_note": c["note"],
            "technique": c["technique"],
        }
    )
m = {
    "version": 1,
    "setup_cmd": "bin/setup",
    "hooks": {
        "guard": "ASPHALT_VERIF",
        "enable": "no hooks are needed: all stubs are applied from the harnesses, outside /repo (guard name reserved, unused)",
        "baseline_off_cmd": "cd /repo && /venv/bin/python -m pytest -ra -q -p no:cacheprovider --timeout=900 --continue-on-collection-errors",
        "source_commits": [],
        "add_only": True,
    },
    "engines": [
        {
            "name": "symkit",
            "path": "symkit/ symsched/ harness/",
            "serves_properties": sorted(D.CHECKS),
            "kind_free_text": "bounded symbolic execution of the real asphalt code with CrossHair 0.0.110 / z3 on a "
            "choice-driven model anyio backend (symsched); cube-and-conquer over 16 cores; native replay of counterexamples",
        }
    ],
    "checks": checks,
    "not_applicable": [{"property_id": k, "reason": v} for k, v in D.NOT_APPLICABLE.items()],
    "notes": D.NOTES,
}
with open(os.path.join(ROOT, "MANIFEST.json"), "w") as f:
    json.dump(m, f, indent=1)
print("MANIFEST.json written:", len(checks), "checks,", len(m["not_applicable"]), "not applicable")
