#!/usr/bin/env python3
"""Print the markdown table of DESIGN.md section 12.7 from evidence/<ID>.json (quick) and evidence/thorough/<ID>.json."""
import json, os

def load(p):
    try:
        return json.load(open(p))
    except Exception:
        return None

def fmt(n):
    return f"{n:,}"

print("| id | quick: harnesses | paths | z3 queries | wall | thorough: paths | z3 queries | wall |")
print("|---|---|---|---|---|---|---|---|")
tq = tt = 0
for i in range(1, 20):
    pid = f"C{i:02d}"
    q = load(f"/verif/evidence/{pid}.json")
    t = load(f"/verif/evidence/thorough/{pid}.json")
    names = ", ".join(h["name"].split("-", 1)[1] for h in q["coverage"]["harnesses"]) if q else "-"
    def cols(e):
        if not e:
            return "- | - | -"
        w = e["wall_s"]
        return f"{fmt(e['coverage']['evaluations'])} | {fmt(e['coverage']['queries_discharged'])} | " + (f"{w:.0f} s" if w < 120 else f"{w / 60:.1f} min")
    tq += q["wall_s"] if q else 0
    tt += t["wall_s"] if t else 0
    print(f"| {pid} | {names} | {cols(q)} | {cols(t)} |")
print(f"\nquick total {tq / 60:.1f} min; thorough total {tt / 60:.1f} min")
