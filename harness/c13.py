"""C13 -- Context lifecycle: usable only from entry to end of teardown, entered once."""
from __future__ import annotations

import anyio

from .common import FAIL, OK, STUBS_COMMON, CbErr, Harness, P, guard, pick, run
from .rhist import T0, T1

import symsched
from asphalt.core import Context, ResourceNotFound  # noqa: E402

STATES = ["never entered", "open", "inside a teardown callback", "closed after a clean exit", "closed after a teardown callback raised",
          "closed after a cancelled exit", "closed after the block raised"]
OPS = ["add_resource", "add_resource_factory", "await get_resource(present key)", "await get_resource(missing key)",
       "get_resource_nowait(present key)", "get_resource_nowait(missing key)", "add_teardown_callback", "enter (async with)",
       "get_resource_nowait(key served by an inherited factory)"]


def params(tier):
    n = 2 if tier == "quick" else 3
    return [P("state", 0, len(STATES) - 1)] + [P(f"op{i}", 0, len(OPS) - 1) for i in range(n)]


@guard
def fn(a, tier):
    n = 2 if tier == "quick" else 3
    state = pick(a["state"], len(STATES))
    ops = [pick(a[f"op{i}"], len(OPS)) for i in range(n)]
    problems = []
    present = object()
    counter = [0]

    def view(ctx):
        return (dict(ctx.get_resources(T0)), dict(ctx.get_resources(T1)))

    async def apply(ctx, op, phase):
        """phase: model state never/open/closing/closed. Returns the new model phase."""
        counter[0] += 1
        k = counter[0]
        before = view(ctx)
        allowed = {"never": False, "open": True, "closing": op != 1, "closed": False}[phase]
        result = exc = None
        try:
            if op == 0:
                ctx.add_resource(object(), f"n{k}", [T1])
            elif op == 1:
                ctx.add_resource_factory(lambda: object(), f"f{k}", types=[T1])
            elif op == 2:
                result = await ctx.get_resource(T0, "a")
            elif op == 3:
                result = await ctx.get_resource(T1, "missing")
            elif op == 4:
                result = ctx.get_resource_nowait(T0, "a")
            elif op == 5:
                result = ctx.get_resource_nowait(T1, "missing")
            elif op == 6:
                ctx.add_teardown_callback(lambda: None)
            elif op == 7:
                await ctx.__aenter__()
            else:
                result = ctx.get_resource_nowait(T0, "fromfactory")
        except BaseException as e:  # noqa
            exc = e
        after = view(ctx)
        where = f"{OPS[op]}:state={phase}"
        if op == 7:
            if phase == "never":
                if exc is not None:
                    problems.append((f"first-entry-refused:{where}", repr(exc)))
                return "open"
            if not isinstance(exc, RuntimeError):
                problems.append((f"re-entry-not-refused:{where}", repr(exc)))
            return phase
        if not allowed:
            if not isinstance(exc, RuntimeError):
                problems.append((f"not-refused:{where}", f"result={result!r} exc={exc!r}"))
            elif after != before:
                problems.append((f"refused-but-changed-something:{where}", f"{before} -> {after}"))
            return phase
        if op in (3, 5):
            if not isinstance(exc, ResourceNotFound):
                problems.append((f"missing-key:{where}", f"result={result!r} exc={exc!r}"))
        elif exc is not None:
            problems.append((f"refused-although-allowed:{where}", repr(exc)))
        elif op in (2, 4) and result is not present:
            problems.append((f"wrong-value:{where}", repr(result)))
        elif op == 0 and f"n{k}" not in after[1]:
            problems.append((f"add_resource-had-no-effect:{where}", ""))
        return phase

    async def main():
        async with Context() as parent:
            parent.add_resource(present, "a", [T0])
            parent.add_resource_factory(lambda: object(), "fromfactory", types=[T0])
            ctx = Context(parent)
            if ctx.closed:
                problems.append(("closed-flag:never-entered", ""))
            phase = "never"
            if state == 0:
                for op in ops:
                    phase = await apply(ctx, op, phase)
            elif state == 1:
                await ctx.__aenter__()
                phase = "open"
                if ctx.closed:
                    problems.append(("closed-flag:open", ""))
                for op in ops:
                    phase = await apply(ctx, op, phase)
            elif state == 2:
                await ctx.__aenter__()

                async def inside():
                    if not ctx.closed:
                        problems.append(("closed-flag:inside-teardown", ""))
                    ph = "closing"
                    for op in ops:
                        ph = await apply(ctx, op, ph)

                ctx.add_teardown_callback(inside)
                await ctx.__aexit__(None, None, None)
                phase = "closed"
            else:
                await ctx.__aenter__()
                phase = "open"
                try:
                    if state == 3:
                        await ctx.__aexit__(None, None, None)
                    elif state == 4:
                        def boom():
                            raise CbErr("td")
                        ctx.add_teardown_callback(boom)
                        await ctx.__aexit__(None, None, None)
                    elif state == 5:
                        async def slow():
                            await anyio.sleep(0)
                        ctx.add_teardown_callback(slow)
                        with anyio.CancelScope() as scope:
                            scope.cancel()
                            try:
                                await anyio.sleep(0)
                            except BaseException as e:  # noqa
                                await ctx.__aexit__(type(e), e, None)
                                raise
                    else:
                        e = CbErr("body")
                        await ctx.__aexit__(type(e), e, None)
                except BaseException:  # noqa
                    pass
                phase = "closed"
                if not ctx.closed:
                    problems.append((f"closed-flag:false-after-exit:{STATES[state]}", ""))
                for op in ops:
                    phase = await apply(ctx, op, phase)
            if phase == "open":
                await ctx.__aexit__(None, None, None)
                if not ctx.closed:
                    problems.append(("closed-flag:false-after-exit", ""))

    _, exc, _k = run(main)
    summary = {"state": STATES[state], "operations": [OPS[o] for o in ops]}
    if problems:
        return FAIL(problems[0][0], problems[0][1], summary)
    if exc is not None:
        return FAIL(f"raised:{type(exc).__name__}", repr(exc), summary)
    return OK(summary, True)


H = Harness(
    prop="C13",
    name="L-matrix",
    fn=fn,
    params=params,
    cube=lambda tier: 1,
    title="state x operation matrix (sequences of operations) on a child context that inherits a resource and a factory",
    bound_text=lambda tier: "state in {" + "; ".join(STATES) + "} x every sequence of " + ("2" if tier == "quick" else "3") + " operations from {" + "; ".join(OPS) + "}",
    oracle="before entry and after closing every operation raises RuntimeError and leaves get_resources() unchanged - also lookups of keys that are "
    "present or served by an inherited factory; while open all succeed (missing keys raise ResourceNotFound); inside a teardown callback all but "
    "add_resource_factory succeed; entering is accepted exactly once; `closed` is False until teardown begins and True afterwards, whatever "
    "ended the block",
    outside="-",
    stubs=STUBS_COMMON,
)


HOWS = ["clean exit", "exception", "clean exit with a teardown callback", "cancellation"]


def child_params(tier):
    return [P("how", 0, 3), P("nested", 0, 1), P("sametask", 0, 4), P("falsy", 0, 1)]


@guard
def child_fn(a, tier):
    from .common import flatten

    how, nested, sametask = pick(a["how"], 4), pick(a["nested"], 2), pick(a["sametask"], 5)
    # sametask 2: held by another task which has already left the child's block: the child is in the middle of its teardown (an async callback is
    # waiting) - it still accepts resources and callbacks, i.e. it is still open in the sense of this property
    mid_teardown = sametask == 2
    # sametask 3: entered by another task that has ENDED without leaving it; nothing references the child any more and the garbage collector has run
    leaked = sametask == 3
    # sametask 4: the child is constructed inside a component's start() (a ComponentContext is current there), entered after start_component() returned, never left
    in_component = sametask == 4
    sametask = 1 if sametask == 1 else 0
    falsy = pick(a["falsy"], 2)

    class Batch(Context):
        """A context that is also a (currently empty) container: its instances are falsy."""

        def __len__(self):
            return 0

    out = {}

    async def main():
        async with anyio.create_task_group() as tg:
            release = anyio.Event()
            entered = anyio.Event()

            async def block():
                """A well-nested `async with` block that is left while a child is still open."""
                with anyio.CancelScope() as scope:
                    try:
                        async with (Batch() if falsy else Context()) as parent:
                            out["parent"] = parent

                            out["never_entered"] = Context(parent)

                            async def holder():
                                async with Context(parent) as child:
                                    out["child"] = child
                                    if mid_teardown:
                                        async def slow_teardown():
                                            entered.set()
                                            await release.wait()

                                        child.add_teardown_callback(slow_teardown)
                                    else:
                                        entered.set()
                                        await release.wait()

                            async def leaker():
                                await Context(parent).__aenter__()
                                entered.set()

                            if in_component:
                                from asphalt.core import Component, start_component

                                class Opener(Component):
                                    async def start(self):
                                        # constructed while the component's ComponentContext is current ...
                                        out["component_child"] = Context()

                                await start_component(Opener, {}, timeout=None)
                                # ... and entered (never left) once the start-up is over
                                await out["component_child"].__aenter__()
                            elif leaked:
                                import gc

                                tg.start_soon(leaker)
                                await entered.wait()
                                await anyio.sleep(0)
                                gc.collect()
                            elif sametask:
                                child = Context(parent)
                                await child.__aenter__()  # entered by hand and never left
                            else:
                                tg.start_soon(holder)
                                await entered.wait()
                            if how == 1:
                                raise CbErr("body")
                            if how == 2:
                                parent.add_teardown_callback(lambda: None)
                            if how == 3:
                                scope.cancel()
                                await anyio.sleep(0)
                        out["exit"] = None
                    except BaseException as e:  # noqa
                        out["exit"] = e
                        if how == 3 and isinstance(e, symsched.Cancelled):
                            raise

            if nested:
                async with Context():
                    await block()
            else:
                await block()
            out["closed"] = out["parent"].closed
            # `closed` is a statement about the context itself: a child that is still open, or was never entered, does not turn "closed" with its parent
            if "child" in out and not mid_teardown and not leaked:
                out["open_child_reports_closed"] = out["child"].closed
            out["never_entered_reports_closed"] = out["never_entered"].closed
            release.set()
            tg.cancel_scope.cancel()

    _, exc, _k = run(main)
    summary = {"parent": "nested" if nested else "root", "parent_left_by": HOWS[how], "child": "constructed inside a component's start(), entered after the start-up and never left" if in_component else "entered by a task that ended without leaving it, unreferenced, after a GC run" if leaked else "entered in the same task" if sametask else "held by another task, in the middle of its own teardown (async callback waiting)" if mid_teardown else "held open by another task",
               "parent_class": "a falsy Context subclass" if falsy else "Context"}
    e = out.get("exit")
    reported = e is not None and any(isinstance(x, RuntimeError) for x in flatten(e))
    if not reported:
        return FAIL(f"open-child-not-reported:{'nested' if nested else 'root'}:{HOWS[how]}", f"the parent's exit produced {e!r}", summary)
    if not out["closed"]:
        return FAIL("parent-not-closed", "", summary)
    if out.get("open_child_reports_closed") or out.get("never_entered_reports_closed"):
        return FAIL("closed-is-true-for-a-context-whose-own-teardown-has-not-begun", f"open child: {out.get('open_child_reports_closed')}, never entered: {out.get('never_entered_reports_closed')}", summary)
    return OK(summary, True)


CHILD = Harness(
    prop="C13",
    name="L-child",
    fn=child_fn,
    params=child_params,
    cube=lambda tier: 0,
    title="leaving a context while a child context entered from it is still open",
    bound_text=lambda tier: "parent root / nested x left by {" + "; ".join(HOWS) + "} x child held open by another task / entered by hand in the same task / held by another task and in the middle of its own teardown / entered by a task that ended without leaving it (unreferenced, after a GC run) x parent a plain / falsy Context",
    oracle="the parent's exit raises a RuntimeError (possibly inside a group) naming the problem; the parent reports closed",
    outside="-",
    stubs=STUBS_COMMON,
)

# ------------------------------------------------------------------------------ L-pending
def pending_params(tier):
    return [P("variant", 0, 1), P("fsteps", 1, 3)] + [P(f"s{i}", 0, 3) for i in range(4 if tier == "quick" else 6)]


@guard
def pending_fn(a, tier):
    from .common import Tape
    from symkit.choose import is_concrete, resumed

    S = 4 if tier == "quick" else 6
    variant = pick(a["variant"], 2)
    f = a["fsteps"]
    if not is_concrete(f):
        with resumed():
            f = f - 1
    else:
        f = f - 1
    fsteps = 1 + pick(f, 3)
    tape = Tape([a[f"s{i}"] for i in range(S)])
    made = []
    got = {}

    async def factory():
        made.append(1)
        for _ in range(fsteps):
            await anyio.sleep(0)
        return object()

    async def main():
        async with anyio.create_task_group() as tg:
            async with Context() as ctx:
                ctx.add_resource_factory(factory, "slow", types=[T1])

                begun = anyio.Event()

                async def ask(tag):
                    try:
                        begun.set()
                        got[tag] = await ctx.get_resource(T1, "slow")
                    except BaseException as e:  # noqa
                        got[tag] = e

                if variant == 0:
                    # both lookups are made concurrently from inside a teardown callback
                    async def during_teardown():
                        async with anyio.create_task_group() as inner:
                            inner.start_soon(ask, "first")
                            inner.start_soon(ask, "second")

                    ctx.add_teardown_callback(during_teardown)
                else:
                    # the first lookup starts while the context is open (in another task), the second one is made
                    # from a teardown callback and has to wait for the first one's generation
                    tg.start_soon(ask, "first")
                    await begun.wait()  # the first lookup has really started (its generation is in flight or done)

                    async def during_teardown():
                        await ask("second")

                    ctx.add_teardown_callback(during_teardown)

    _, exc, _k = run(main, chooser=tape)
    summary = {"variant": ["two concurrent lookups inside a teardown callback", "one lookup started while open, one made during teardown"][variant],
               "factory_checkpoints": fsteps, "schedule": tape.taken}
    if exc is not None:
        return FAIL(f"pending:raised:{type(exc).__name__}", repr(exc), summary)
    for tag in ("first", "second"):
        if isinstance(got.get(tag), BaseException) or got.get(tag) is None:
            return FAIL(f"pending:get_resource-refused-during-teardown:{type(got.get(tag)).__name__}", f"{tag}: {got.get(tag)!r}", summary)
    if got["first"] is not got["second"] or len(made) != 1:
        return FAIL("pending:different-objects", f"{got} made={len(made)}", summary)
    return OK(summary, True)


PENDING = Harness(
    prop="C13",
    name="L-pending",
    fn=pending_fn,
    params=pending_params,
    cube=lambda tier: 1,
    title="get_resource() calls that overlap an in-flight async generation while the context is being torn down",
    bound_text=lambda tier: f"async factory awaiting 1-3 checkpoints; two overlapping lookups, both (or the second) made during teardown; first {4 if tier == 'quick' else 6} scheduling decisions arbitrary",
    oracle="both lookups are accepted (teardown has not finished) and return the one generated object",
    outside="-",
    stubs=STUBS_COMMON,
)


# ------------------------------------------------------------------------------ L-failed-entry
FE_OPS = ["add_resource", "add_resource_factory", "get_resource_nowait", "await get_resource", "add_teardown_callback", "enter it again"]


def fe_params(tier):
    return [P("op", 0, 5), P("parent_has", 0, 1)]


@guard
def fe_fn(a, tier):
    """An entry that FAILS (the context object cannot be registered with its parent) leaves the context un-entered: it accepts nothing."""
    op, parent_has = pick(a["op"], 6), pick(a["parent_has"], 2)

    class Keyed(Context):
        """A Context subclass with value equality - which makes its instances unhashable."""

        def __init__(self, parent=None, key=""):
            super().__init__(parent)
            self.key = key

        def __eq__(self, other):
            return isinstance(other, Keyed) and other.key == self.key

    out = {"tds": []}

    async def main():
        async with Context() as parent:
            if parent_has:
                parent.add_resource("inherited", "x", [T0])
            c = Keyed(parent, "k")
            try:
                await c.__aenter__()
                out["entry"] = None
            except TypeError as e:
                out["entry"] = e
            if out["entry"] is None:
                await c.__aexit__(None, None, None)
                return
            try:
                if op == 0:
                    c.add_resource("v", "x", [T1])
                elif op == 1:
                    c.add_resource_factory(lambda: "made", "x", types=[T1])
                elif op == 2:
                    out["value"] = c.get_resource_nowait(T0, "x", optional=True)
                elif op == 3:
                    out["value"] = await c.get_resource(T0, "x", optional=True)
                elif op == 4:
                    c.add_teardown_callback(lambda: out["tds"].append("ran"))
                else:
                    await c.__aenter__()
                out["op"] = None
            except BaseException as e:  # noqa
                out["op"] = e
            out["closed"] = c.closed
            out["view"] = (dict(c.get_resources(T0)) if False else None)
            out["parent_view"] = sorted(parent.get_resources(T1))

    _, exc, _k = run(main)
    summary = {"operation_after_the_failed_entry": FE_OPS[op], "parent_holds_a_resource": bool(parent_has)}
    if exc is not None:
        return FAIL(f"failed-entry:raised:{type(exc).__name__}", repr(exc), summary)
    if out.get("entry") is None:
        return OK(summary, nontrivial=False)  # this Python/implementation managed to enter it: nothing to judge
    e = out.get("op")
    if op == 5:
        # a second attempt fails the same way (or is refused); what matters is that it does not "succeed" into a half-entered context
        if e is None:
            return FAIL("failed-entry:second-entry-succeeded", "", summary)
        return OK(summary, True)
    if not isinstance(e, RuntimeError):
        return FAIL(f"failed-entry:{FE_OPS[op]}-accepted-on-a-context-that-was-never-entered:{'returned' if e is None else type(e).__name__}", repr(out), summary)
    if out["closed"]:
        return FAIL("failed-entry:reports-closed", "", summary)
    if out["tds"] or out["parent_view"]:
        return FAIL("failed-entry:something-changed", repr(out), summary)
    return OK(summary, True)


FAILED_ENTRY = Harness(
    prop="C13",
    name="L-failed-entry",
    fn=fe_fn,
    params=fe_params,
    cube=lambda tier: 0,
    title="a context whose entry failed (unhashable Context subclass entered as a child) has not been entered",
    bound_text=lambda tier: "Context subclass with value equality (unhashable) created with an explicit parent; its __aenter__ raises TypeError; then one of {" + "; ".join(FE_OPS) + "}",
    oracle="every operation raises RuntimeError and changes nothing (no resource in the parent, no callback stored, `closed` stays False); a second entry does not succeed",
    outside="other ways an entry can fail",
    stubs=STUBS_COMMON,
)


# ------------------------------------------------------------------------------ L-inject (scenario shared with C19 J-cancel b)
def linj_params(tier):
    return [P("state", 0, 2), P("is_async", 0, 1), P("present", 0, 2)]


@guard
def linj_fn(a, tier):
    from . import c19 as _c19

    res = _c19._state_equiv(pick(a["state"], 3), pick(a["is_async"], 2), pick(a["present"], 3))
    if res.ok:
        return res
    return FAIL("inject:" + res.sig, res.detail, res.summary)


LINJECT = Harness(
    prop="C13",
    name="L-inject",
    fn=linj_fn,
    params=linj_params,
    cube=lambda tier: 0,
    title="lookups made on behalf of an @inject function obey the same lifecycle rule as explicit lookups",
    bound_text=lambda tier: "as C19 J-cancel (b): sync / async injected function called while its current context is open / being torn down / already closed, resource static / absent / inherited",
    oracle="the injected call has the outcome of the explicit get_resource / get_resource_nowait calls: allowed while open and during teardown, RuntimeError once the context is closed",
    outside="-",
    stubs=STUBS_COMMON,
)

HARNESSES = [H, CHILD, PENDING, FAILED_ENTRY, LINJECT]
