"""C17 -- merge_config is a pure, right-biased deep merge."""
from __future__ import annotations

from .common import FAIL, OK, Harness, P, guard, pick

from asphalt.core import merge_config  # noqa: E402

KEYS = ("a", "a.b")
KINDS = ["absent", "int", "None", "list of pairs", "{}", "{x:int}", "{x:{y:int}}", "{'a.b':int, x:int}", "0", "[]", "{x:0}", "{x:False}", "{502:int, x:int} (an int key, e.g. a status code or port)",
         "a read-only Mapping that is not a dict: MappingProxyType({x:int})", "a dict SUBCLASS: OrderedDict({x:int, w:int})"]
SYM_KINDS = [0, 1, 3, 5, 6]  # kinds used by the data-symbolic harness (leaves symbolic)


def build(kind, v):
    """Value of kind `kind` with integer leaves v (a fresh structure every call)."""
    if kind == 1:
        return v
    if kind == 2:
        return None
    if kind == 3:
        return [["x", v]]
    if kind == 4:
        return {}
    if kind == 5:
        return {"x": v}
    if kind == 6:
        return {"x": {"y": v}}
    if kind == 7:
        return {"a.b": v, "x": v + 1}
    if kind == 8:
        return 0
    if kind == 10:
        return {"x": 0}
    if kind == 11:
        return {"x": False}
    if kind == 12:
        return {502: v, "x": v + 2}
    if kind == 13:
        import types

        return types.MappingProxyType({"x": v})
    if kind == 14:
        from collections import OrderedDict

        return OrderedDict([("x", v), ("w", v + 3)])
    return []


def build_arg(mode, kinds, vals):
    if mode == 0:
        return None
    d = {}
    for key, kind, v in zip(KEYS, kinds, vals):
        if kind != 0:
            d[key] = build(kind, v)
    return d


def ref_merge(o, v):
    """Reference from the statement."""
    o = o or {}
    v = v or {}
    out = {}
    for k in list(o) + [k for k in v if k not in o]:
        if k in v:
            if isinstance(o.get(k), dict) and isinstance(v[k], dict):
                out[k] = ref_merge(o[k], v[k])
            else:
                out[k] = v[k]
        else:
            out[k] = o[k]
    return out


def same(x, y):
    """Structural equality that never takes a short cut through identity."""
    if isinstance(x, dict) or isinstance(y, dict):
        if not (isinstance(x, dict) and isinstance(y, dict)) or len(x) != len(y):
            return False
        for k in x:
            if k not in y or not same(x[k], y[k]):
                return False
        return True
    if isinstance(x, list) or isinstance(y, list):
        if not (isinstance(x, list) and isinstance(y, list)) or len(x) != len(y):
            return False
        return all(same(p, q) for p, q in zip(x, y))
    if x is None or y is None:
        return x is None and y is None
    if isinstance(x, (bool, str)) or isinstance(y, (bool, str)):
        return type(x) is type(y) and x == y  # 0 == False, 1 == True: equal but NOT the same value
    return x == y


def nested_dicts(d, acc):
    if isinstance(d, dict):
        acc.append(d)
        for v in d.values():
            nested_dicts(v, acc)
    return acc


SECOND_KEY_QUICK = [0, 1, 4, 5, 7, 12, 13, 14]  # quick tier: the second key ranges over these kinds only


def params(tier):
    n = len(KINDS) - 1
    nb = (len(SECOND_KEY_QUICK) if tier == "quick" else len(KINDS)) - 1
    return [P("mo", 0, 1), P("mv", 0, 1), P("ka", 0, n), P("kb", 0, nb), P("la", 0, n), P("lb", 0, nb)]


def sym_params(tier):
    n = len(SYM_KINDS) - 1
    return [P("ka", 0, n), P("kb", 0, n), P("la", 0, n), P("lb", 0, n),
            P("v1", -(10**6), 10**6), P("v2", -(10**6), 10**6), P("v3", -(10**6), 10**6), P("v4", -(10**6), 10**6)]


def fn(a, tier):
    n = len(KINDS)
    mo, mv = pick(a["mo"], 2), pick(a["mv"], 2)
    second = (lambda c: SECOND_KEY_QUICK[pick(c, len(SECOND_KEY_QUICK))]) if tier == "quick" else (lambda c: pick(c, n))
    ko = [pick(a["ka"], n), second(a["kb"])] if mo else [0, 0]
    kv = [pick(a["la"], n), second(a["lb"])] if mv else [0, 0]
    return judge(mo, mv, ko, kv, [11, 12], [13, 14], "4 concrete ints")


def sym_fn(a, tier):
    n = len(SYM_KINDS)
    ko = [SYM_KINDS[pick(a["ka"], n)], SYM_KINDS[pick(a["kb"], n)]]
    kv = [SYM_KINDS[pick(a["la"], n)], SYM_KINDS[pick(a["lb"], n)]]
    return judge(1, 1, ko, kv, [a["v1"], a["v2"]], [a["v3"], a["v4"]], "4 symbolic ints in -10^6..10^6")


def judge(mo, mv, ko, kv, vals_o, vals_v, leaves):
    original, overrides = build_arg(mo, ko, vals_o), build_arg(mv, kv, vals_v)
    o_copy, v_copy = build_arg(mo, ko, vals_o), build_arg(mv, kv, vals_v)
    o_nested = [(d, dict(d)) for d in nested_dicts(original, [])]
    v_nested = [(d, dict(d)) for d in nested_dicts(overrides, [])]
    summary = {
        "original": None if not mo else {k: KINDS[x] for k, x in zip(KEYS, ko)},
        "overrides": None if not mv else {k: KINDS[x] for k, x in zip(KEYS, kv)},
        "leaves": leaves,
    }
    try:
        result = merge_config(original, overrides)
    except Exception as e:
        return FAIL(f"raised:{type(e).__name__}:{summary['original']}|{summary['overrides']}", repr(e), summary)
    if not isinstance(result, dict):
        return FAIL("result-not-dict", "", summary)
    if result is original or result is overrides:
        return FAIL("result-is-an-argument", "", summary)
    if not same(original, o_copy):
        return FAIL(f"original-modified:{summary['original']}|{summary['overrides']}", "", summary)
    if not same(overrides, v_copy):
        return FAIL(f"overrides-modified:{summary['original']}|{summary['overrides']}", "", summary)
    for d, snap in o_nested + v_nested:
        if len(d) != len(snap) or any(k not in d or d[k] is not snap[k] for k in snap):
            return FAIL(f"nested-dict-of-an-argument-modified:{summary['original']}|{summary['overrides']}", "", summary)
    # "any other key present in overrides holds the overrides' value": the very object, not a copy of it
    if overrides:
        for k, val in overrides.items():
            if not (isinstance(val, dict) and isinstance((original or {}).get(k), dict)):
                from collections.abc import Mapping as _Mapping

                if isinstance(val, (list, dict, _Mapping)) and result.get(k) is not val:
                    return FAIL(f"override-value-replaced-by-a-copy:{summary['original']}|{summary['overrides']}", k, summary)
    exp = ref_merge(o_copy, v_copy)
    ok = same(result, exp)
    if ok:
        return OK(summary, nontrivial=bool(mo and mv))
    return FAIL(f"wrong-merge:{summary['original']}|{summary['overrides']}", "", summary)


M = Harness(
    prop="C17",
    name="M",
    fn=guard(fn),
    params=params,
    mode="cs",
    cube=lambda tier: 4,
    title="merge_config vs the reference merge, both arguments built from selectors",
    bound_text=lambda tier: "each argument None or a dict over keys {'a','a.b'}; per key one of " + ", ".join(KINDS)
    + ("; quick tier: the second key ranges over " + ", ".join(KINDS[k] for k in SECOND_KEY_QUICK) + " only" if tier == "quick" else ""),
    oracle="result == reference merge written from the statement (structural comparison, no identity short cuts); both arguments structurally "
    "unchanged and every nested dict object of either argument unchanged by identity and content; result is a new top-level dict",
    outside="depth > 3, more than 2 keys per level, non-dict Mappings, keys other than the two",
    stubs=("none",),
)

MSYM = Harness(
    prop="C17",
    name="M-sym",
    fn=guard(sym_fn),
    params=sym_params,
    mode="ds",
    cube=lambda tier: 2,
    title="same oracle, integer leaves symbolic: merge_config runs under full tracing, the solver decides every branch on a leaf value",
    bound_text=lambda tier: "both arguments dicts over {'a','a.b'}; per key one of " + ", ".join(KINDS[k] for k in SYM_KINDS)
    + "; the 4 integer leaves are symbolic (any value in -10^6..10^6, including 0 and negative ones)",
    oracle="as M",
    outside="as M",
    stubs=("none: merge_config is executed under full CrossHair tracing",),
    tree_check=False,
    cond_timeout=lambda tier: 240 if tier == "quick" else 1200,
)


# ------------------------------------------------ M-history: several calls, shared sections
import copy as _copy  # noqa: E402

HIST_KINDS = [0, 1, 4, 5, 6, 7]
SHARING = ["no sharing", "overrides['a'] and overrides['a.b'] are ONE dict object (a YAML alias)", "original['a'] and original['a.b'] are ONE dict object",
           "both"]


def hist_params(tier):
    n = len(HIST_KINDS) - 1
    return [P("ka", 0, n), P("kb", 0, n), P("la", 0, n), P("lb", 0, n), P("share", 0, 3), P("edit", 0, 3)]


def _wreck(res, o, v):
    """Consume a result the way callers do (pop everything), descending only into sections that were MERGED (those must be new objects)."""
    for k in list(res):
        if isinstance(res[k], dict) and isinstance((o or {}).get(k), dict) and isinstance((v or {}).get(k), dict):
            if res[k] is not o[k] and res[k] is not v[k]:
                _wreck(res[k], o[k], v[k])
    res.clear()


def hist_fn(a, tier):
    n = len(HIST_KINDS)
    ko = [HIST_KINDS[pick(a["ka"], n)], HIST_KINDS[pick(a["kb"], n)]]
    kv = [HIST_KINDS[pick(a["la"], n)], HIST_KINDS[pick(a["lb"], n)]]
    share, edit = pick(a["share"], 4), pick(a["edit"], 4)
    # a freshly loaded module for every explored path: the verdict of a path depends on its own calls only
    import importlib

    import asphalt.core._utils as _utils_mod

    merge_config = importlib.reload(_utils_mod).merge_config
    original, overrides = build_arg(1, ko, [11, 12]), build_arg(1, kv, [13, 14])
    if share in (1, 3) and isinstance(overrides.get("a"), dict) and kv[1] != 0:
        overrides["a.b"] = overrides["a"]
    if share in (2, 3) and isinstance(original.get("a"), dict) and ko[1] != 0:
        original["a.b"] = original["a"]
    summary = {"original": {k: KINDS[x] for k, x in zip(KEYS, ko)}, "overrides": {k: KINDS[x] for k, x in zip(KEYS, kv)}, "sharing": SHARING[share],
               "between_the_calls": ["the first result is consumed (emptied)", "a leaf of overrides is changed in place", "a leaf of original is changed in place",
                                     "another call with self-referential dictionaries is made and fails"][edit]}

    def one(label):
        o_copy, v_copy = _copy.deepcopy(original), _copy.deepcopy(overrides)
        try:
            result = merge_config(original, overrides)
        except Exception as e:
            return None, FAIL(f"history:raised:{type(e).__name__}:{label}", repr(e), summary)
        if result is original or result is overrides:
            return None, FAIL(f"history:result-is-an-argument:{label}", "", summary)
        if not same(original, o_copy) or not same(overrides, v_copy):
            return None, FAIL(f"history:argument-modified:{label}:share={share}", "", summary)
        if not same(result, ref_merge(o_copy, v_copy)):
            return None, FAIL(f"history:wrong-merge:{label}:share={share}:edit={edit}", f"got {result!r} expected {ref_merge(o_copy, v_copy)!r}", summary)
        return result, None

    r1, bad = one("first call")
    if bad:
        return bad
    if edit == 0:
        _wreck(r1, original, overrides)
    elif edit == 3:
        loop_o, loop_v = {"x": 1}, {"x": 2}
        loop_o["self"], loop_v["self"] = loop_o, loop_v
        try:
            merge_config(loop_o, loop_v)
        except (RecursionError, ValueError):
            pass  # a circular configuration cannot be merged; how that is reported is not this property's business
    else:
        target = overrides if edit == 1 else original
        for d in nested_dicts(target, []):
            for k in list(d):
                if isinstance(d[k], int) and not isinstance(d[k], bool):
                    d[k] = d[k] + 1000
    r2, bad = one("second call")
    if bad:
        return bad
    _wreck(r2, original, overrides)
    r3, bad = one("third call")
    if bad:
        return bad
    return OK(summary, True)


MHIST = Harness(
    prop="C17",
    name="M-history",
    fn=guard(hist_fn),
    params=hist_params,
    mode="cs",
    cube=lambda tier: 2,
    title="three calls on the same argument objects with the caller consuming results / editing its arguments in between; sections shared by identity",
    bound_text=lambda tier: "both arguments dicts over {'a','a.b'}, per key one of " + ", ".join(KINDS[k] for k in HIST_KINDS) + "; sharing in {" + "; ".join(SHARING)
    + "}; between call 1 and 2: result emptied / overrides' leaves changed in place / original's leaves changed in place / an unrelated call with self-referential "
    "dictionaries that fails; result 2 emptied before call 3",
    oracle="every call's result == reference merge of the arguments AS THEY ARE at that call; arguments unchanged by every call; a section referenced twice is merged at both places",
    outside="as M",
    stubs=("none",),
)


# ------------------------------------------------ bug hunting with CrossHair's own containers
def hunt_params(tier):
    return [P("k1", type="str", maxlen=2), P("k2", type="str", maxlen=2), P("k3", type="str", maxlen=2),
            P("x", -5, 5), P("y", -5, 5), P("z", -5, 5), P("shape", 0, 3)]


def hunt_fn(a, tier):
    k1, k2, k3 = a["k1"], a["k2"], a["k3"]
    shape = pick(a["shape"], 4)
    x, y, z = a["x"], a["y"], a["z"]
    if shape == 0:
        o, v = {k1: x, k2: {k3: y}}, {k3: {k1: z}}
    elif shape == 1:
        o, v = {k1: {k2: x}}, {k2: y, k3: {k2: z}}
    elif shape == 2:
        o, v = {k1: {k2: {k3: x}}, k3: y}, {k2: {k2: {k1: z}}}
    else:
        o, v = {k1: x}, {k2: {k3: y}, k1: z}
    o2, v2 = ref_merge(o, None), ref_merge(v, None)  # deep-ish copies via the reference
    try:
        r = merge_config(o, v)
    except Exception as e:
        return FAIL(f"hunt:raised:{type(e).__name__}", repr(e))
    if not same(o, o2) or not same(v, v2):
        return FAIL("hunt:argument-modified", "")
    return OK({"shape": shape, "keys": "3 symbolic strings (collisions decided by the solver)"}, True) if same(r, ref_merge(o2, v2)) else FAIL("hunt:wrong-merge", "")


HUNT = Harness(
    prop="C17",
    name="M-keys",
    fn=guard(hunt_fn),
    params=hunt_params,
    mode="ds",
    cube=lambda tier: 0,
    title="symbolic KEYS: three symbolic strings placed in four nesting shapes; which keys collide is decided by the solver",
    bound_text=lambda tier: "keys: any 3 strings of length <= 2; 4 fixed nesting shapes; leaves symbolic ints",
    oracle="same as M",
    outside="reported as bug hunting only: 'not confirmed' here is inconclusive and does not affect the verdict",
    tree_check=False,
    hunting_only=True,
    cond_timeout=lambda tier: 40 if tier == "quick" else 300,
)

HARNESSES = [M, MSYM, MHIST, HUNT]
