"""C08 -- Service tasks are stopped at teardown before anything they may depend on."""
from __future__ import annotations

import anyio

from .common import FAIL, OK, STUBS_COMMON, BodyErr, CbErr, DeviationTape, Harness, P, flatten, guard, pick, run
from .ctree import RT

import symsched
from asphalt.core import (  # noqa: E402
    Component,
    Context,
    add_resource,
    add_teardown_callback,
    current_context,
    get_resources,
    start_component,
    start_service_task,
)

ACTIONS = ["'cancel'", "None (task ends by itself)", "sync callable", "async callable", "sync callable that raises",
           "async callable that raises when awaited", "callable object (class with __call__)",
           "unhashable callable object (a dataclass with __call__: __eq__ without __hash__)",
           "falsy callable object (__call__ plus __bool__ returning False)",
           "sync callable returning an awaitable OBJECT (not a coroutine) that asks the task to stop when awaited"]
LATER_ACTIONS = ["'cancel'", "sync callable"]


def cfg(tier):
    return (1, 8) if tier == "quick" else (2, 10)


def params(tier):
    D, L = cfg(tier)
    ps = [P("n", 0, 2), P("nested", 0, 1), P("act", 0, 9), P("via", 0, 2), P("k0", 0, 2), P("k1", 0, 2), P("k2", 0, 2), P("act2", 0, 1)]
    # ONE of {plain, first task ended by itself, block ends with an exception, task needs shielded clean-up}
    ps += [P("mode", 0, 3)]
    for j in range(D):
        ps += [P(f"gap{j}", 0, L), P(f"arm{j}", 0, 3)]
    return ps


@guard
def fn(a, tier):
    D, L = cfg(tier)
    n = 1 + pick(a["n"], 3)
    nested = pick(a["nested"], 2)
    # 0: module-level shortcuts in the owning context; 1: the same calls made inside a component's start();
    # 2: the owner's METHODS called while another, short-lived nested context is current
    via = pick(a["via"], 3)
    # 0 resource with teardown callback, 1 service task, 2 resource whose teardown callback starts a service task DURING teardown
    kinds = [pick(a[f"k{i}"], 3) for i in range(n)]
    first_task = next((i for i, k in enumerate(kinds) if k == 1), None)
    act = pick(a["act"], 10) if first_task is not None else 0
    mode = pick(a["mode"], 4)
    m_selfend, m_blockerr, m_cleanup = int(mode == 1), int(mode == 2), int(mode == 3)
    # the first task has already ended by itself (with its context) when the owner is torn down: its teardown action is still due exactly once
    selfend = m_selfend if first_task is not None else 0
    cleanup = 2 * m_cleanup if first_task is not None else 0
    act2 = pick(a["act2"], 2) if kinds.count(1) > 1 else 0
    tape = DeviationTape([(a[f"gap{j}"], a[f"arm{j}"]) for j in range(D)], L)
    blockerr = m_blockerr  # the owner's block ends with an ordinary exception: the tasks are still stopped as their teardown_action dictates
    body_exc = BodyErr("the block failed")
    log = []
    calls = {}
    info = {}
    Cancelled = symsched.Cancelled

    def action_for(i):
        if i == first_task:
            return act
        return [0, 2][act2]

    def make_task(i):
        action = action_for(i)
        stop = anyio.Event()
        calls[i] = 0

        async def task():
            ctx = current_context()
            info[("snapshot", i)] = {t: dict(get_resources(t)) for t in RT[:3]}
            info[("parent", i)] = ctx.parent
            info[("ctxobj", i)] = ctx

            async def own_teardown():
                with anyio.CancelScope(shield=True):
                    await anyio.sleep(0)
                log.append(("task_ctx_closed", i))

            add_teardown_callback(own_teardown)
            try:
                if selfend and i == first_task:
                    pass  # ends by itself at once
                elif action == 1:
                    await anyio.sleep(3)  # ends by itself
                else:
                    await stop.wait()
                    # asked to stop by its teardown callable: the task finishes its current work, which
                    # includes ordinary (unshielded) checkpoints - it must not be cancelled meanwhile
                    await anyio.sleep(0)
                    await anyio.sleep(0)
            except BaseException as e:
                log.append(("task_saw", i, "cancel" if isinstance(e, Cancelled) else type(e).__name__))
                raise
            finally:
                with anyio.CancelScope(shield=True):
                    for _ in range(cleanup):
                        await anyio.sleep(0)
                log.append(("task_end", i))

        def sync_stop():
            calls[i] += 1
            log.append(("action_called", i))
            stop.set()

        async def async_stop():
            calls[i] += 1
            log.append(("action_called", i))
            await anyio.sleep(0)
            stop.set()

        def sync_raise():
            calls[i] += 1
            log.append(("action_called", i))
            raise CbErr("teardown action failed")

        async def async_raise():
            calls[i] += 1
            log.append(("action_called", i))
            await anyio.sleep(0)
            raise CbErr("teardown action failed when awaited")

        class Stopper:
            def __call__(self):
                sync_stop()

        from dataclasses import dataclass

        @dataclass
        class Shutdown:  # eq=True without frozen: instances are unhashable
            reason: str

            def __call__(self):
                sync_stop()

        class StopRequest:
            """Truthy only once it has been called - a falsy callable until then."""

            requested = False

            def __call__(self):
                self.requested = True
                sync_stop()

            def __bool__(self):
                return self.requested

        class _StopOp:
            def __await__(self):
                yield from anyio.sleep(0).__await__()
                stop.set()

        def awaitable_stop():
            calls[i] += 1
            log.append(("action_called", i))
            return _StopOp()

        td = ["cancel", None, sync_stop, async_stop, sync_raise, async_raise, Stopper(), Shutdown("owner left"), StopRequest(), awaitable_stop][action]
        return task, td

    async def block():
        async with Context() as ctx:
            info["ctx"] = ctx

            def late_starter(i):
                async def cb():
                    log.append(("res_td", i))

                    async def late_task():
                        try:
                            await anyio.sleep_forever()
                        finally:
                            log.append(("late_task_end", i))

                    await start_service_task(late_task, f"late{i}")  # its finalizer is registered during teardown: it runs next

                return cb

            async def register_items():
                for i in range(n):
                    if via == 2:
                        async with Context():  # the owner is NOT the current context while its methods are called
                            if kinds[i] == 0:
                                ctx.add_resource(object(), f"r{i}", [RT[i]], teardown_callback=lambda i=i: log.append(("res_td", i)))
                            elif kinds[i] == 2:
                                ctx.add_resource(object(), f"r{i}", [RT[i]], teardown_callback=late_starter(i))
                            else:
                                task, td = make_task(i)
                                await ctx.start_service_task(task, f"svc{i}", teardown_action=td)
                        log.append(("nested_left", i))
                    elif kinds[i] == 0:
                        add_resource(object(), f"r{i}", [RT[i]], teardown_callback=lambda i=i: log.append(("res_td", i)))
                    elif kinds[i] == 2:
                        add_resource(object(), f"r{i}", [RT[i]], teardown_callback=late_starter(i))
                    else:
                        task, td = make_task(i)
                        await start_service_task(task, f"svc{i}", teardown_action=td)

            if via:

                class Comp(Component):
                    async def start(self):
                        await register_items()

                await start_component(Comp, {}, timeout=None)
            else:
                await register_items()
            await anyio.sleep(0)
            if selfend:
                for _ in range(4):
                    await anyio.sleep(0)
            # a resource factory registered on the owner AFTER the tasks were started is not part of their snapshot
            ctx.add_resource_factory(lambda: object(), "registered_later", types=[RT[5]])
            for i_ in range(n):
                if kinds[i_] == 1 and ("ctxobj", i_) in info and not info[("ctxobj", i_)].closed:
                    try:
                        info[("late_factory_visible", i_)] = info[("ctxobj", i_)].get_resource_nowait(RT[5], "registered_later", optional=True) is not None
                    except RuntimeError:
                        pass
            log.append(("leaving",))
            if blockerr:
                raise body_exc
        log.append(("left",))
        k = symsched.kernel()
        info["alive_after"] = [t.name for t in k.live_tasks() if "Service task" in t.name]

    async def guarded_block():
        try:
            await block()
        except BodyErr as e:
            info["block_raised"] = e
            log.append(("left",))
            k = symsched.kernel()
            info["alive_after"] = [t.name for t in k.live_tasks() if "Service task" in t.name]

    async def main():
        if nested:
            async with Context():
                await guarded_block()
        else:
            await guarded_block()

    _, exc, k = run(main, chooser=tape)
    if exc is None and blockerr and info.get("block_raised") is not body_exc:
        exc = RuntimeError(f"the block's exception did not come out as itself: {info.get('block_raised')!r}")
    summary = {"owner_block_ends_with": "an Exception" if blockerr else "return", "items": ["resource+teardown cb" if kd == 0 else "resource whose teardown cb starts a service task" if kd == 2
                         else f"service task, teardown_action={ACTIONS[action_for(i)]}" for i, kd in enumerate(kinds)],
               "first_task_ends_by_itself_before_the_teardown": bool(selfend), "cleanup_checkpoints_after_stop": cleanup, "context": "nested" if nested else "root",
               "registered": ["directly in the owning context (shortcuts)", "inside a component's start()", "through the owner's methods while a nested context is current"][via], "schedule": tape.taken}
    if exc is not None:
        return FAIL(f"raised:{type(flatten(exc)[0]).__name__}:action={ACTIONS[act]}", f"{exc!r} log={log}", summary)
    pos = {e: i for i, e in enumerate(log)}
    if ("left",) not in pos:
        return FAIL("did-not-leave", log, summary)
    for i in range(n):
        if kinds[i] == 2:
            # the task started during teardown is stopped (its finalizer runs next) before older callbacks proceed
            lt = pos.get(("late_task_end", i))
            if lt is None or lt > pos[("left",)]:
                return FAIL("task-started-during-teardown-not-stopped-before-the-block-was-left", log, summary)
            for j in range(i):
                if kinds[j] in (0, 2) and ("res_td", j) in pos and pos[("res_td", j)] < lt:
                    return FAIL("task-started-during-teardown-outlived-an-earlier-resource", log, summary)
        if kinds[i] != 1:
            continue
        action = action_for(i)
        end, closed = pos.get(("task_end", i)), pos.get(("task_ctx_closed", i))
        ended_by_itself = bool(selfend) and i == first_task
        if action != 1 and not ended_by_itself and end is not None and end < pos[("leaving",)]:
            return FAIL(f"task-stopped-before-its-owner-was-left:action={ACTIONS[action]}:via={via}", log, summary)
        if end is None or closed is None or end > pos[("left",)] or closed > pos[("left",)]:
            return FAIL(f"task-or-its-context-not-finished-when-block-left:action={ACTIONS[action]}", log, summary)
        for j in range(n):
            if kinds[j] in (0, 2) and ("res_td", j) in pos:
                if j < i and not (pos[("res_td", j)] > end and pos[("res_td", j)] > closed):
                    return FAIL(f"earlier-resource-torn-down-before-task-finished:action={ACTIONS[action]}:cleanup={cleanup}", log, summary)
                if j > i and not pos[("res_td", j)] < min(end, closed):
                    if action != 1 and not ended_by_itself:  # a task ending by itself may end any time
                        return FAIL("later-resource-torn-down-after-task", log, summary)
            if kinds[j] == 1 and j < i:
                if not (pos[("task_end", j)] > end and pos.get(("task_ctx_closed", j), 0) > closed) and action_for(j) != 1 and action != 1 and not (selfend and j == first_task):
                    return FAIL("tasks-not-stopped-in-reverse-order", log, summary)
        want_calls = 1 if action >= 2 else 0
        if calls[i] != want_calls:
            return FAIL(f"teardown-action-called-{calls[i]}-times:action={ACTIONS[action]}", log, summary)
        saw_cancel = ("task_saw", i, "cancel") in pos
        want_cancel = action in (0, 4, 5) and not ended_by_itself
        if saw_cancel != want_cancel:
            return FAIL(f"task-cancelled={saw_cancel}-expected={want_cancel}:action={ACTIONS[action]}", log, summary)
        snap = info[("snapshot", i)]
        for j in range(n):
            if kinds[j] in (0, 2):
                has = f"r{j}" in snap[RT[j]]
                if has != (j < i):
                    return FAIL("task-context-snapshot-wrong", f"task {i} sees r{j}: {has}", summary)
        if info[("parent", i)] is not info["ctx"]:
            return FAIL("task-context-parent-wrong", "", summary)
        if info.get(("late_factory_visible", i)):
            return FAIL("task-context-sees-a-factory-registered-after-the-task-was-started", f"task {i}", summary)
    res_order = [e[1] for e in log if e[0] == "res_td"]
    if res_order != sorted(res_order, reverse=True) or len(res_order) != kinds.count(0) + kinds.count(2):
        return FAIL("resource-teardown-order", log, summary)
    if info["alive_after"] or k.live_tasks():
        return FAIL("service-task-alive-after-block", info["alive_after"], summary)
    return OK(summary, nontrivial=first_task is not None)


H = Harness(
    prop="C08",
    name="S-order",
    fn=fn,
    params=params,
    cube=lambda tier: 4,
    title="service tasks and resources with teardown callbacks registered in any order; every teardown_action kind",
    bound_text=lambda tier: "1-3 items, each a resource with a teardown callback, a service task, or a resource whose teardown callback starts a service task during teardown; first task's teardown_action in {"
    + "; ".join(ACTIONS) + "}, later tasks {'cancel', sync callable}; the first task runs until stopped or has already ended by itself when the owner is left; task needs 0 or 2 (shielded) checkpoints of clean-up and has an async teardown "
    "callback in its own context; root / nested owner; items registered by the shortcuts, from inside a component's start() (ComponentContext wrappers) or through the owner's methods while another context is current; FIFO schedule with "
    + ("one deviation within the first 8 decisions" if tier == "quick" else "two deviations"),
    oracle="task end AND its own context's teardown precede every callback registered before the task and follow those registered after; "
    "callable invoked exactly once; task sees a cancellation iff action is 'cancel' or the callable raised; task context = snapshot at start, "
    "parent = owner; nothing escapes; no service task alive once the block has been left",
    outside="teardown itself cancelled (excluded by the statement); service tasks that raise (S-crash)",
    stubs=STUBS_COMMON,
)


# ------------------------------------------------------------------------------ S-crash
def crash_params(tier):
    return [P("nested", 0, 1), P("when", 0, 4), P("others", 0, 1)] + [P(f"s{i}", 0, 3) for i in range(4 if tier == "quick" else 7)]


@guard
def crash_fn(a, tier):
    from .common import Tape

    S = 4 if tier == "quick" else 7
    # when 0-2: crashes by itself after that many checkpoints; 3: fails while shutting down after having been cancelled at teardown
    # ('cancel'); 4: the same after its teardown callable raised (fallback to cancellation)
    nested, when, others = pick(a["nested"], 2), pick(a["when"], 5), pick(a["others"], 2)
    tape = Tape([a[f"s{i}"] for i in range(S)])
    log = []
    boom = BodyErr("service crashed")

    async def crasher():
        if when >= 3:
            try:
                await anyio.sleep_forever()
            except symsched.Cancelled:
                log.append("crash")
                raise boom  # e.g. a flush that fails during shutdown
        for _ in range(when):
            await anyio.sleep(0)
        log.append("crash")
        raise boom

    def failing_action():
        raise CbErr("cannot ask the task to stop")

    async def steady():
        try:
            await anyio.sleep_forever()
        finally:
            log.append("steady_end")

    async def block():
        async with Context() as ctx:
            ctx.add_resource(object(), "r", [RT[0]], teardown_callback=lambda: log.append("res_td"))
            if others:
                await start_service_task(steady, "steady")
            await start_service_task(crasher, "crasher", teardown_action=failing_action if when == 4 else "cancel")
            for _ in range(6):
                await anyio.sleep(0)
            log.append("body_done")

    async def main():
        if nested:
            async with Context():
                await block()
        else:
            await block()

    _, exc, k = run(main, chooser=tape)
    summary = {"context": "nested" if nested else "root", "crash": f"after {when} checkpoints" if when < 3 else "while shutting down after being cancelled at teardown" + (" (its teardown callable raised)" if when == 4 else ""), "another_service_running": bool(others), "schedule": tape.taken}
    if "crash" not in log:
        # under this schedule the task was stopped by its finalizer before it got to raise
        return OK(summary, nontrivial=False) if exc is None else FAIL("crash:exception-without-a-crash", repr(exc), summary)
    if exc is None:
        return FAIL("crash:exception-vanished", log, summary)
    if exc is not boom and flatten(exc) != [boom]:
        return FAIL("crash:wrong-exception", repr(exc), summary)
    if not nested and exc is not boom:
        return FAIL("crash:single-exception-not-unwrapped-by-root-context", repr(exc), summary)
    if "res_td" not in log or (others and "steady_end" not in log):
        return FAIL("crash:teardown-skipped", log, summary)
    # (order of the other service's end against callbacks is not judged here: the crash cancels
    # the root task group, i.e. this teardown is itself cancelled, which the statement excludes)
    if k.live_tasks():
        return FAIL("crash:task-alive", [t.name for t in k.live_tasks()], summary)
    return OK(summary, True)


CRASH = Harness(
    prop="C08",
    name="S-crash",
    fn=crash_fn,
    params=crash_params,
    cube=lambda tier: 3,
    title="an exception escaping a service task takes the application down instead of vanishing",
    bound_text=lambda tier: f"service task raising after 0-2 checkpoints, or while it shuts down after having been cancelled by its finalizer (teardown_action 'cancel', or a callable that raises); another service running or not; root/nested; first {4 if tier == 'quick' else 7} decisions arbitrary",
    oracle="the exception leaves the root `async with` (as itself for the root context); resource teardown callback and the other service's "
    "finalizer still run; no task alive once the root block is left",
    outside="several crashing tasks",
    stubs=STUBS_COMMON,
)


# ------------------------------------------------------------------------------ S-sibling
def sib_params(tier):
    L = 8 if tier == "quick" else 12
    return [P("pre", 0, 2), P("bdelay", 0, 3), P("startfail", 0, 1), P("act", 0, 1), P("nested", 0, 1), P("gap0", 0, L), P("arm0", 0, 3)]


@guard
def sib_fn(a, tier):
    L = 8 if tier == "quick" else 12
    pre, bdelay = pick(a["pre"], 3), pick(a["bdelay"], 4)
    startfail, act, nested = pick(a["startfail"], 2), pick(a["act"], 2), pick(a["nested"], 2)
    tape = DeviationTape([(a["gap0"], a["arm0"])], L)
    log, info = [], {"calls": 0}
    boom = BodyErr("service start-up failed")

    async def block():
        async with Context():
            stop = anyio.Event()

            async def svc(*, task_status):
                log.append("task_begin")
                info["snapshot"] = sorted(get_resources(RT[0]))
                try:
                    for _ in range(pre):
                        await anyio.sleep(0)
                    if startfail:
                        raise boom
                    task_status.started()
                    log.append("task_started")
                    await stop.wait()
                    await anyio.sleep(0)
                finally:
                    log.append("task_end")

            def action():
                info["calls"] += 1
                log.append("action_called")
                stop.set()

            async def starter():
                try:
                    await start_service_task(svc, "svc", teardown_action=action if act else "cancel")
                    log.append("svc_registered")
                except BodyErr as e:
                    log.append("start_failed" if e is boom else "start_failed_with_another_exception")

            async def sibling():
                for _ in range(bdelay):
                    await anyio.sleep(0)
                add_resource(object(), "db", [RT[0]], teardown_callback=lambda: log.append("res_td"))
                log.append("res_registered")

            async with anyio.create_task_group() as tg:
                tg.start_soon(starter)
                tg.start_soon(sibling)
            log.append("leaving")
        log.append("left")

    async def main():
        if nested:
            async with Context():
                await block()
        else:
            await block()

    _, exc, k = run(main, chooser=tape)
    summary = {"service_checkpoints_before_started": pre, "sibling_registers_its_resource_after_checkpoints": bdelay, "service_startup_fails": bool(startfail),
               "teardown_action": ["'cancel'", "sync callable"][act], "context": "nested" if nested else "root", "schedule": tape.taken}
    if exc is not None:
        return FAIL(f"sibling:raised:{type(flatten(exc)[0]).__name__}", f"{exc!r} log={log}", summary)
    pos = {e: i for i, e in enumerate(log)}
    if "left" not in pos or "res_td" not in pos or pos["res_td"] < pos["leaving"]:
        return FAIL("sibling:resource-teardown-missing-or-early", log, summary)
    if startfail:
        if "start_failed" not in pos:
            return FAIL("sibling:start-failure-not-reported-to-the-caller", log, summary)
        if info["calls"]:
            return FAIL("sibling:teardown-action-invoked-for-a-task-that-never-started", log, summary)
        if k.live_tasks():
            return FAIL("sibling:task-alive", [t.name for t in k.live_tasks()], summary)
        return OK(summary, True)
    if "svc_registered" not in pos or "task_end" not in pos or pos["task_end"] > pos["left"] or pos["task_end"] < pos["leaving"]:
        return FAIL("sibling:task-not-stopped-at-teardown", log, summary)
    before = pos["res_registered"] < pos["svc_registered"]
    if before and pos["res_td"] < pos["task_end"]:
        return FAIL("sibling:resource-registered-before-the-start-completed-torn-down-under-the-running-task", log, summary)
    if not before and pos["res_td"] > pos["task_end"]:
        return FAIL("sibling:resource-registered-after-the-task-started-outlived-it", log, summary)
    if info["calls"] != act:
        return FAIL(f"sibling:teardown-action-called-{info['calls']}-times", log, summary)
    if k.live_tasks():
        return FAIL("sibling:task-alive", [t.name for t in k.live_tasks()], summary)
    return OK(summary, True)


SIB = Harness(
    prop="C08",
    name="S-sibling",
    fn=sib_fn,
    params=sib_params,
    cube=lambda tier: 4,
    title="a sibling task registers a resource while start_service_task() is still waiting for the task's start-up",
    bound_text=lambda tier: "service with 0-2 checkpoints before task_status.started(), start-up succeeding or raising; a sibling task adds a resource with a teardown "
    "callback to the same context after 0-3 checkpoints; teardown_action 'cancel' / sync callable; root / nested owner; FIFO schedule with one deviation within the "
    f"first {8 if tier == 'quick' else 12} decisions",
    oracle="the task is stopped at teardown; a resource registered before start_service_task() returned is torn down only after the task has ended, one registered "
    "afterwards before; the callable runs exactly once - and never for a task whose start-up failed; the start-up failure reaches the caller; nothing alive afterwards",
    outside="several services starting at once",
    stubs=STUBS_COMMON,
)

HARNESSES = [H, CRASH, SIB]
