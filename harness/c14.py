"""C14 -- Component configuration is a layered deep merge that fully determines the tree."""
from __future__ import annotations

import copy
from importlib.metadata import EntryPoint

from .common import FAIL, OK, STUBS_COMMON, Harness, P, guard, pick, run
from .ctree import RT

import asphalt.core._component as _comp  # noqa: E402
from asphalt.core import Component, Context, add_resource, start_component  # noqa: E402

LOG = []
HARD = {}  # filled per scenario: what the constructors hard-code


def make_leaf(label):
    types = tuple(type(f"{label}Res{i}", (), {}) for i in range(3))

    class Leaf(Component):
        TYPES = types

        def __init__(self, **kw):
            LOG.append(("init", label, kw))

        async def prepare(self):
            add_resource(object(), "default", [types[2]])  # prepare(): never remapped

        async def start(self):
            if HARD.get("inner_ctx"):
                # entering and leaving a context of its own must not change which context the
                # component's later publications go through
                async with Context():
                    pass
            add_resource(object(), "default", [types[0]])  # start(): remapped by a `kind/name` alias
            add_resource(object(), "explicit", [types[1]])  # explicitly named: never remapped
            if label == "Kid" and HARD.get("nested_start"):
                # a component may bring up a sub-tree of its own from inside start(): that tree's
                # components are named relative to THAT call, the outer alias suffix does not apply
                await start_component(SubRoot, {}, timeout=None)

    Leaf.__name__ = Leaf.__qualname__ = f"{label}Leaf"
    return Leaf


KidLeaf, PlainLeaf, DeepLeaf, ExtraLeaf, SubWorker = (make_leaf(x) for x in ("Kid", "Plain", "Deep", "Extra", "SubWorker"))


class Namespace:
    """Component classes may live in a namespace class: 'module:Namespace.Inner.Kid' is a valid reference."""

    class Inner:
        Kid = KidLeaf


class SubRoot(Component):
    TYPES = tuple(type(f"SubRootRes{i}", (), {}) for i in range(3))

    def __init__(self, **kw):
        LOG.append(("init", "SubRoot", kw))
        self.add_component("worker", SubWorker)

    async def prepare(self):
        add_resource(object(), "default", [self.TYPES[2]])

    async def start(self):
        add_resource(object(), "default", [self.TYPES[0]])
        add_resource(object(), "explicit", [self.TYPES[1]])


class Mid(Component):
    def __init__(self, **kw):
        LOG.append(("init", "Mid", kw))
        self.add_component("deep", DeepLeaf, **HARD.get("deep", {}))


class Root(Component):
    def __init__(self, **kw):
        LOG.append(("init", "Root", kw))
        spelling = HARD["spelling"]
        tp = {0: KidLeaf, 1: "harness.c14:KidLeaf", 2: "c14leaf", 3: None, 4: "harness.c14:Namespace.Inner.Kid"}[spelling]
        alias = HARD["alias"]
        # the hard-coded defaults are module-level data shared by every start: passed as they are (no copy)
        if tp is None:
            self.add_component(alias, **HARD["kid"])
        else:
            self.add_component(alias, tp, **HARD["kid"])
        self.add_component("plain", PlainLeaf)
        self.add_component("mid", Mid)


def install_entry_points():
    eps = _comp.component_types._entrypoints
    for nm, target in (("c14leaf", "KidLeaf"), ("c14extra", "ExtraLeaf")):
        if nm not in eps:
            eps[nm] = EntryPoint(name=nm, value=f"harness.c14:{target}", group="asphalt.components")


HARD_KINDS = ["absent", "scalar", "dict", "the int 1"]
EXT_KINDS = ["absent", "scalar", "None", "dict", "True (equal to 1, but another value)"]
SPELL = ["class object", "'module:attr' reference", "entry point name", "omitted (alias names the type)", "'module:attr' reference with a dotted attribute path"]


def hard_val(kind, tag):
    return {1: f"hard-{tag}", 2: {"x": f"hard-{tag}-x", "y": {"deep": f"hard-{tag}-y", "keep": 1}}, 3: 1}.get(kind)


def ext_val(kind, tag):
    return {1: f"ext-{tag}", 2: None, 3: {"y": {"deep": f"ext-{tag}-y"}, "z": f"ext-{tag}-z"}, 4: True}.get(kind)


def ref_merge(o, v):
    o = o or {}
    v = v or {}
    out = dict(o)
    for k, val in v.items():
        if isinstance(out.get(k), dict) and isinstance(val, dict):
            out[k] = ref_merge(out[k], val)
        else:
            out[k] = val
    return out


def params(tier):
    return [P("h1", 0, 2), P("e1", 0, 3), P("h2", 0, 2), P("e2", 0, 3), P("spelling", 0, 4), P("slash", 0, 2),
            P("extra", 0, 3), P("deep", 0, 1), P("kidnone", 0, 1), P("nestedstart", 0, 1), P("innerctx", 0, 1)]


@guard
def fn(a, tier):
    install_entry_points()
    h1, e1, h2, e2 = pick(a["h1"], 3), pick(a["e1"], 4), pick(a["h2"], 3), pick(a["e2"], 4)
    spelling, slash = pick(a["spelling"], 5), pick(a["slash"], 3)
    suffix = [None, "special", "caf\u00e9_\u53d7\u4fe12"][slash]  # any non-empty run of word characters is a valid resource name
    extra = pick(a["extra"], 4)
    deep, kidnone = (1, 0) if tier == "quick" else (pick(a["deep"], 2), pick(a["kidnone"], 2))
    nestedstart = pick(a["nestedstart"], 2)
    innerctx = pick(a["innerctx"], 2)
    if (h1, e1, h2, e2) == (1, 1, 0, 0) and innerctx:
        # in this corner the two scalars are the int 1 (hard-coded) and True (external): equal, but another value - it must still win
        h1, e1 = 3, 4
    # alias: with spelling "omitted" the alias (its part before '/') must itself name the type
    base = "c14leaf" if spelling == 3 else "kid"
    alias = f"{base}/{suffix}" if slash else base
    hard_kid = {}
    if h1:
        hard_kid["k1"] = hard_val(h1, "k1")
    if h2:
        hard_kid["k2"] = hard_val(h2, "k2")
    ext_kid = {}
    if e1:
        ext_kid["k1"] = ext_val(e1, "k1")
    if e2:
        ext_kid["k2"] = ext_val(e2, "k2")
    HARD.clear()
    HARD.update(spelling=spelling, alias=alias, kid=hard_kid, deep={"d": {"p": 1, "q": 1}}, nested_start=nestedstart, inner_ctx=innerctx)
    hard_pristine = copy.deepcopy({"kid": HARD["kid"], "deep": HARD["deep"]})
    components = {}
    # (a null section for a hard-coded child is not generated: the statement reserves None for
    # config-only children, and merge_config's "None replaces a dict" would apply otherwise)
    if ext_kid or not kidnone:
        components[alias] = ext_kid
    if extra == 1:
        components["only/viaconfig"] = {"type": ExtraLeaf, "n": 5}
    elif extra == 2:
        components["c14extra/cfgonly"] = None  # config-only child, type from the alias
    if deep:
        components["mid"] = {"components": {"deep": {"d": {"q": 2, "r": 2}, "e": None}}}
    if extra == 3:
        # a config-only GRANDchild (below the hard-coded container 'mid') whose type comes from its alias
        components.setdefault("mid", {}).setdefault("components", {})["c14extra/deepcfg"] = None
    config = {"top": {"a": 1}, "components": components}
    pristine = copy.deepcopy(config)
    runs = []

    def one_run():
        LOG.clear()
        out = {}

        async def main():
            async with Context() as ctx:
                await start_component(Root, config, timeout=None)
                out["names"] = {cls.__name__: [sorted(ctx.get_resources(t)) for t in cls.TYPES] for cls in (KidLeaf, PlainLeaf, DeepLeaf, ExtraLeaf, SubRoot, SubWorker)}

        _, exc, _k = run(main)
        return copy.deepcopy(LOG), out, exc

    log1, out1, exc1 = one_run()
    unchanged_after_first = config == pristine
    log2, out2, exc2 = one_run()
    summary = {"hard_coded": {k: HARD_KINDS[v] for k, v in (("k1", h1), ("k2", h2))}, "external": {k: EXT_KINDS[v] for k, v in (("k1", e1), ("k2", e2))},
               "child_alias": alias, "type_given_as": SPELL[spelling], "config_only_child": ["none", "dict with a class type", "None, type from alias 'c14extra/cfgonly'", "None, below the container 'mid', type from alias 'c14extra/deepcfg'"][extra],
               "external_grandchild_config": bool(deep), "kid_starts_a_subtree_from_its_start": bool(nestedstart), "components_enter_a_context_of_their_own_in_start": bool(innerctx), "alias_absent_from_external_config": bool(kidnone and not ext_kid)}
    if exc1 is not None:
        return FAIL(f"start-failed:{type(exc1).__name__}:spelling={SPELL[spelling]}", repr(exc1), summary)
    if not unchanged_after_first or config != pristine:
        return FAIL("config-object-modified", f"{config!r} vs {pristine!r}", summary)
    if {"kid": HARD["kid"], "deep": HARD["deep"]} != hard_pristine:
        return FAIL("hard-coded-defaults-modified", f"{HARD['kid']!r} {HARD['deep']!r} vs {hard_pristine!r}", summary)
    if exc2 is not None or log2 != log1 or out2 != out1:
        return FAIL("second-start-from-same-config-differs", f"exc2={exc2!r} log1={log1} log2={log2}", summary)
    inits = {}
    for _, cls, kw in log1:
        inits.setdefault(cls, []).append(kw)
    exp_kid = ref_merge(hard_kid, ext_kid)
    exp_deep = ref_merge({"d": {"p": 1, "q": 1}}, {"d": {"q": 2, "r": 2}, "e": None} if deep else {})
    exp = {"Root": [{"top": {"a": 1}}], "Mid": [{}], "Kid": [exp_kid], "Plain": [{}], "Deep": [exp_deep]}
    if extra == 1:
        exp["Extra"] = [{"n": 5}]
    elif extra in (2, 3):
        exp["Extra"] = [{}]
    if nestedstart:
        exp["SubRoot"] = [{}]
        exp["SubWorker"] = [{}]
    from .c17 import same as _same  # structural equality that tells 1 from True

    if not _same(inits, exp):
        bad = sorted(k for k in set(inits) | set(exp) if not _same(inits.get(k), exp.get(k)))
        return FAIL(f"constructor-kwargs:{bad}:h1={HARD_KINDS[h1]}:e1={EXT_KINDS[e1]}:h2={HARD_KINDS[h2]}:e2={EXT_KINDS[e2]}:deep={deep}",
                    f"constructors received {inits}, expected {exp}", summary)
    # default-name remapping: in start() only, for the default name only, for the component's own alias only
    names = out1["names"]
    exp_names = {
        "KidLeaf": [[suffix if slash else "default"], ["explicit"], ["default"]],
        "PlainLeaf": [["default"], ["explicit"], ["default"]],
        "DeepLeaf": [["default"], ["explicit"], ["default"]],
        "ExtraLeaf": [[], [], []] if extra == 0 else [[["viaconfig", "cfgonly", "deepcfg"][extra - 1]], ["explicit"], ["default"]],
        "SubRoot": [["default"], ["explicit"], ["default"]] if nestedstart else [[], [], []],
        "SubWorkerLeaf": [["default"], ["explicit"], ["default"]] if nestedstart else [[], [], []],
    }
    if names != exp_names:
        bad = sorted(k for k in names if names[k] != exp_names[k])
        return FAIL(f"resource-names:{bad}:slash={slash}:extra={extra}", f"got {names} expected {exp_names}", summary)
    return OK(summary, True)


H = Harness(
    prop="C14",
    name="G-config",
    fn=fn,
    params=params,
    cube=lambda tier: 4,
    title="hard-coded add_component() kwargs vs external components configuration at two depths; type spellings; aliases; config reuse",
    bound_text=lambda tier: "2 kwargs keys: hard-coded {absent, scalar, nested dict} x external {absent, scalar, None, nested dict}; child type given as {"
    + ", ".join(SPELL) + "}; alias without '/name', with an ASCII and with a non-ASCII (accented + CJK + digit) name; config-only child {none, dict with class type, None with type from alias, the same one level further down}; external config for a grandchild; alias present with an empty dict or absent; the child optionally starts a component sub-tree of its own from inside start()",
    oracle="kwargs received by every constructor == reference deep merge(hard-coded, external); exactly the expected components are created; "
    "start_component twice from the same config object gives identical logs and leaves the object == its deep copy; resources added as 'default' "
    "in start() appear under the alias suffix of their own component only, those from prepare() and explicitly named ones never",
    outside="more keys / deeper trees",
    stubs=STUBS_COMMON + ("an entry point 'c14leaf' is injected into the real asphalt.components PluginContainer (entry points are environment)",),
)


# ------------------------------------------------------------------------------ G-phase
import anyio  # noqa: E402

from asphalt.core import current_context  # noqa: E402

PH_TYPES = tuple(type(f"PhaseRes{i}", (), {}) for i in range(6))
PHASES = ["prepare()", "while its child is starting (from another task, through the component's context)", "start()",
          "after start_component() returned (from another task, through the component's context)"]


def phase_params(tier):
    return [P("slash", 0, 1), P("named", 0, 1), P("concurrent", 0, 1)]


@guard
def phase_fn(a, tier):
    slash, named = pick(a["slash"], 2), pick(a["named"], 2)
    # start() sets the component up concurrently: one task starts a service task with a slow start-up, another adds a default-named resource meanwhile
    concurrent = pick(a["concurrent"], 2)
    holder = {}

    class Child(Component):
        async def start(self):
            holder["child_starting"].set()
            await holder["go_on"].wait()

    class Feed(Component):
        def __init__(self):
            self.add_component("child", Child)

        async def prepare(self):
            holder["cctx"] = current_context()
            add_resource(object(), types=[PH_TYPES[0]])

        async def start(self):
            add_resource(object(), types=[PH_TYPES[2]])
            if named:
                add_resource(object(), "explicit", [PH_TYPES[4]])
            if concurrent:
                from asphalt.core import start_service_task

                async def service(*, task_status):
                    for _ in range(3):
                        await anyio.sleep(0)
                    task_status.started()
                    await anyio.sleep_forever()

                async def adder():
                    await anyio.sleep(0)
                    add_resource(object(), types=[PH_TYPES[5]])

                async with anyio.create_task_group() as tg:
                    tg.start_soon(start_service_task, service, "slow service")
                    tg.start_soon(adder)

    class Top(Component):
        def __init__(self):
            self.add_component("feed/primary" if slash else "feed", Feed)

    out = {}

    async def main():
        holder["child_starting"], holder["go_on"] = anyio.Event(), anyio.Event()
        async with Context() as ctx, anyio.create_task_group() as tg:

            async def other_task():
                await holder["child_starting"].wait()
                holder["cctx"].add_resource(object(), types=[PH_TYPES[1]])
                holder["go_on"].set()

            tg.start_soon(other_task)
            await start_component(Top, {}, timeout=None)

            async def later_task():
                holder["cctx"].add_resource(object(), types=[PH_TYPES[3]])

            tg.start_soon(later_task)
            await anyio.wait_all_tasks_blocked()
            out["names"] = [sorted(ctx.get_resources(t)) for t in PH_TYPES]

    _, exc, _k = run(main)
    summary = {"alias": "feed/primary" if slash else "feed", "also_adds_an_explicitly_named_resource": bool(named)}
    if exc is not None:
        return FAIL(f"phase:raised:{type(exc).__name__}", repr(exc), summary)
    suffix = "primary" if slash else "default"
    exp = [["default"], ["default"], [suffix], ["default"], ["explicit"] if named else [], [suffix] if concurrent else []]
    if out["names"] != exp:
        bad = [PHASES[i] for i in range(4) if out["names"][i] != exp[i]]
        if out["names"][5] != exp[5]:
            bad.append("in start(), from a task of its own, while the component's start_service_task() call was pending")
        return FAIL(f"phase:default-named-resource-remapped-outside-start:{bad}" if bad else "phase:explicit-name", f"got {out['names']} expected {exp}", summary)
    return OK(summary, True)


PHASE = Harness(
    prop="C14",
    name="G-phase",
    fn=phase_fn,
    params=phase_params,
    cube=lambda tier: 0,
    title="the `default` -> alias-suffix remapping applies while the component's start() runs and at no other time",
    bound_text=lambda tier: "component 'feed/primary' (or 'feed') with one child; default-named resources added through the component's context in prepare(), by another "
    "task while the child is starting, in start(), and by another task after start_component() returned; optionally an explicitly named one in start()",
    oracle="only the resource added in start() appears under the alias suffix; all others under 'default' / their explicit name",
    outside="-",
    stubs=STUBS_COMMON,
)


# ------------------------------------------------------------------------------ G-rebind
class RebindA(Component):
    def __init__(self, **kw):
        LOG.append(("init", "RebindA", kw))


class RebindB(Component):
    def __init__(self, **kw):
        LOG.append(("init", "RebindB", kw))


REBOUND = RebindA  # what "harness.c14:REBOUND" refers to; re-bound between two starts (plugin reload, implementation swap)


def rebind_params(tier):
    return [P("where", 0, 1), P("first", 0, 1)]


@guard
def rebind_fn(a, tier):
    import harness.c14 as me

    where, first = pick(a["where"], 2), pick(a["first"], 2)
    order = [RebindA, RebindB] if first == 0 else [RebindB, RebindA]

    class Top(Component):
        def __init__(self, **kw):
            if where == 0:
                self.add_component("x", "harness.c14:REBOUND", n=1)

    config = {"components": {"x": {"type": "harness.c14:REBOUND", "n": 1}}} if where == 1 else {}
    built = []
    for cls in order:
        me.REBOUND = cls
        LOG.clear()

        async def main():
            async with Context():
                await start_component(Top, config, timeout=None)

        _, exc, _k = run(main)
        if exc is not None:
            me.REBOUND = RebindA
            return FAIL(f"rebind:raised:{type(exc).__name__}", repr(exc))
        built.append([e[1] for e in LOG if e[0] == "init"])
    me.REBOUND = RebindA
    summary = {"reference_given_in": ["add_component()", "the external configuration"][where], "attribute_bound_to": [c.__name__ for c in order]}
    exp = [[c.__name__] for c in order]
    if built != exp:
        return FAIL("rebind:module-attr-reference-not-equivalent-to-the-class-it-names-at-start", f"built {built}, the attribute named {exp}", summary)
    return OK(summary, True)


REBIND = Harness(
    prop="C14",
    name="G-rebind",
    fn=rebind_fn,
    params=rebind_params,
    cube=lambda tier: 0,
    title="a 'module:attr' type reference is the class the attribute names when the tree is started",
    bound_text=lambda tier: "child type 'harness.c14:REBOUND' given in add_component() / in the external configuration; the tree is started twice from the same "
    "configuration object with the attribute bound to another class in between (both orders)",
    oracle="each start constructs the class the attribute names at that moment - what giving the class itself would construct",
    outside="entry points changing between starts (package metadata is environment)",
    stubs=STUBS_COMMON,
)

HARNESSES = [H, PHASE, REBIND]
