"""C02 -- Resources are scoped to the context tree: snapshot down, nothing up or sideways."""
from __future__ import annotations

from . import rhist
from .common import FAIL, OK, STUBS_COMMON, Harness, P, guard
from .rhist import T0, T1, Alphabet, decode, max_options, run_history

ALPHA = Alphabet(
    max_ctx=3,
    add=[((T0,), "a", "ok"), ((T0, T1), "a", "ok")],
    fac=[((T0,), "a", False, "ok"), ((T0, T1), "a", False, "ok")],
    look=[(T0, "a", "nowait"), (T1, "a", "nowait"), (T0, "a", "await"), (T1, "a", "inject_sync")],
)
# thorough: a second name and async factories as well
ALPHA_T = Alphabet(
    max_ctx=3,
    add=[((T0,), "a", "ok"), ((T0, T1), "a", "ok"), ((T0,), "b", "ok")],
    fac=[((T0,), "a", False, "ok"), ((T0, T1), "a", True, "ok")],
    look=[(T0, "a", "nowait"), (T1, "a", "await"), (T0, "a", "inject_async"), (T0, "b", "shortcut_nowait")],
)


def cfg(tier):
    return (ALPHA, 3) if tier == "quick" else (ALPHA_T, 4)


def params(tier):
    alpha, K = cfg(tier)
    return [P(f"o{i}", 0, max_options(alpha) - 1) for i in range(K)]


def make(prop, classes, name="R"):
    @guard
    def fn(a, tier):
        alpha, K = cfg(tier)
        ops = decode(a, alpha, K)
        div, eng = run_history(ops)
        summary = {"history": [o.text() for o in ops], "views_compared": eng.compared}
        if div is not None:
            if prop in div.classes:
                return FAIL(div.sig, div.detail, summary)
            return OK(summary, nontrivial=False)
        kinds = {o.kind for o in ops}
        return OK(summary, nontrivial=len(kinds) >= 2)

    return fn


R = Harness(
    prop="C02",
    name="R",
    fn=make("C02", None),
    params=params,
    cube=lambda tier: 1 if tier == "quick" else 2,
    title="R-history: visible set of every context after every operation vs the scoping model",
    bound_text=lambda tier: (
        "histories of 3 operations over <=3 contexts (any tree shape), 1 name, 2 types; ops: create_child(p), add_resource(T0 | T0+T1), "
        "add_resource_factory(T0 | T0+T1, sync), lookup(T0|T1 via nowait/await/inject) -- then generating probes of every key in every context"
        if tier == "quick"
        else "histories of 4 operations over <=3 contexts, 2 names, 2 types; ops: create_child(p), add_resource(T0/a | T0+T1/a | T0/b), "
        "add_resource_factory(T0 sync | T0+T1 async), lookup via nowait/await/inject_async/shortcut -- then generating probes"
    ),
    oracle="after every step, for every live context, get_resources()/shortcut == model's visible set (child = snapshot of the parent's static "
    "resources and factories at creation + own additions); an operation on c changes the view of c only; lookups through all six public paths "
    "agree; keys invisible in a context raise ResourceNotFound there (final probes expose shared factory tables)",
    outside="histories longer than the bound; more than 3 contexts; ComponentContext delegation (covered by C05/C06/C14 harnesses)",
    stubs=STUBS_COMMON,
)

HARNESSES = [R]
