"""C02 -- Resources are scoped to the context tree: snapshot down, nothing up or sideways."""
from __future__ import annotations

from . import rhist
from .common import FAIL, OK, STUBS_COMMON, Harness, P, guard
from .rhist import T0, T1, Alphabet, decode, max_options, run_history

ALPHA = Alphabet(
    max_ctx=3,
    add=[((T0,), "a", "ok"), ((T0, T1), "a", "ok"), ((T1,), "a", "ok")],
    fac=[((T0,), "a", False, "ok"), ((T0, T1), "a", False, "ok")],
    look=[(T0, "a", "nowait"), (T1, "a", "nowait"), (T0, "a", "await"), (T1, "a", "inject_sync"), (T0, "a", "inject_sync_opt")],
    visit=True,
    deferred=True,
)
# thorough: a second name and async factories as well
ALPHA_T = Alphabet(
    max_ctx=3,
    add=[((T0,), "a", "ok"), ((T0, T1), "a", "ok"), ((T0,), "b", "ok")],
    fac=[((T0,), "a", False, "ok"), ((T0, T1), "a", True, "ok")],
    look=[(T0, "a", "nowait"), (T1, "a", "await"), (T0, "a", "inject_async"), (T0, "b", "shortcut_nowait"), (T1, "a", "inject_sync_opt"), (T0, "a", "inject_async_opt")],
    visit=True,
    deferred=True,
)


def cfg(tier):
    return (ALPHA, 3) if tier == "quick" else (ALPHA_T, 3)


def params(tier):
    alpha, K = cfg(tier)
    return [P(f"o{i}", 0, max_options(alpha) - 1) for i in range(K)]


def make(prop, classes, name="R", cfg=cfg):
    @guard
    def fn(a, tier):
        alpha, K = cfg(tier)
        ops = decode(a, alpha, K)
        div, eng = run_history(ops)
        summary = {"history": [o.text() for o in ops], "views_compared": eng.compared}
        if div is not None:
            if prop in div.classes:
                return FAIL(div.sig, div.detail, summary)
            return OK(summary, nontrivial=False)
        kinds = {o.kind for o in ops}
        return OK(summary, nontrivial=len(kinds) >= 2)

    return fn


R = Harness(
    prop="C02",
    name="R",
    fn=make("C02", None),
    params=params,
    cube=lambda tier: 1 if tier == "quick" else 2,
    title="R-history: visible set of every context after every operation vs the scoping model",
    bound_text=lambda tier: (
        "histories of 3 operations over <=3 contexts (any tree shape), 1 name, 2 types; ops: create_child(p) - entered at once, or constructed now and "
        "entered only after the next operation -, a task temporarily entering and leaving a Context with an explicit other parent, add_resource(T0 | T0+T1), "
        "add_resource_factory(T0 | T0+T1, sync), lookup(T0|T1 via nowait/await/inject, incl. a sync injected Optional[T0] parameter) -- then generating probes of every key in every context"
        if tier == "quick"
        else "histories of 3 operations over <=3 contexts, 2 names, 2 types; ops: create_child(p), add_resource(T0/a | T0+T1/a | T0/b), "
        "add_resource_factory(T0 sync | T0+T1 async), lookup via nowait/await/inject_async/shortcut -- then generating probes"
    ),
    oracle="after every step, for every live context, get_resources()/shortcut == model's visible set (child = snapshot of the parent's static "
    "resources and factories at creation + own additions); an operation on c changes the view of c only; lookups through all six public paths "
    "agree; keys invisible in a context raise ResourceNotFound there (final probes expose shared factory tables)",
    outside="histories longer than the bound; more than 3 contexts; ComponentContext delegation (covered by C05/C06/C14 harnesses)",
    stubs=STUBS_COMMON,
)

R4 = Harness(
    prop="C02",
    name="R4",
    fn=make("C02", None, cfg=lambda tier: (ALPHA, 4)),
    params=lambda tier: [P(f"o{i}", 0, max_options(ALPHA) - 1) for i in range(4)],
    cube=lambda tier: 2,
    tiers=("thorough",),
    title="R-history of FOUR operations (the quick alphabet)",
    bound_text=lambda tier: "histories of 4 operations over <=3 contexts with the quick tier's alphabet (incl. deferred entering and visits), then generating probes",
    oracle=R.oracle,
    outside=R.outside,
    stubs=STUBS_COMMON,
)

HARNESSES = [R, R4]


# ------------------------------------------------------------------------------ K-comp
import anyio  # noqa: E402

from .common import pick, run  # noqa: E402
from .ctree import RT, Env, NodeSpec, build_classes  # noqa: E402

from asphalt.core import Context, ResourceNotFound, start_component  # noqa: E402


def comp_params(tier):
    return [P("node", 0, 1), P("phase", 0, 1), P("intask", 0, 1), P("late_factory", 0, 1), P("sibling_first", 0, 1), P("falsy", 0, 2)]


@guard
def comp_fn(a, tier):
    node, phase, intask = pick(a["node"], 2), pick(a["phase"], 2), pick(a["intask"], 2)
    late_factory, sibling_first = pick(a["late_factory"], 2), pick(a["sibling_first"], 2)
    falsy = pick(a["falsy"], 3)
    env = Env()
    pre, late = object(), object()
    sib = [object(), 0, ""][falsy]  # what the sibling publishes: an ordinary object, or a falsy value
    made = []
    seen = {}

    def probe(env_, nd):
        async def go():
            from asphalt.core import current_context

            owner = seen["owner"]

            async def look():
                async with Context() as sub:
                    seen["parent_is_owner"] = sub.parent is owner
                    seen["sub"] = {i: dict(sub.get_resources(RT[i])) for i in range(4)}
                    seen["owner_now"] = {i: dict(owner.get_resources(RT[i])) for i in range(4)}
                    try:
                        seen["late"] = await sub.get_resource(RT[1], "late")
                    except ResourceNotFound as e:
                        seen["late"] = e
                    try:
                        seen["fac"] = sub.get_resource_nowait(RT[3], "made") if late_factory else None
                    except ResourceNotFound as e:
                        seen["fac"] = e
                    # what the sub-context adds stays in it
                    sub.add_resource(object(), "subonly", [RT[0]])
                seen["owner_after"] = "subonly" in owner.get_resources(RT[0])

            if intask:
                async with anyio.create_task_group() as tg:
                    tg.start_soon(look)
            else:
                await look()

        return go()

    def factory():
        made.append(1)
        return object()

    # after the publication: the component's own OPTIONAL lookups (sync and async) of what it just published
    steps = [("pub", "late", late, "late", [RT[1]]), ("optnowait", "optnowait", RT[1], "late"), ("opt", "optawait", RT[1], "late")]
    if late_factory:
        steps.append(("fac", "latefac", factory, "made", [RT[3]]))
    steps.append(("call", probe))
    # the target WAITS for the sibling's resource (component lookup path); the sibling publishes it a bit later
    sib_steps = [("cp",), ("cp",), ("pub", "sib", sib, "sib", [RT[2]])]
    steps.insert(0, ("wait", "sibwait", RT[2], "sib")) if node == 1 else None
    target_prep = steps if phase == 0 else []
    target_start = steps if phase == 1 else []
    if node == 0:
        nodes = [NodeSpec(0, -1, target_prep, target_start), NodeSpec(1, 0, sib_steps, [])]
    else:
        order = [NodeSpec(1, 0, target_prep, target_start, alias="target"), NodeSpec(2, 0, sib_steps, [], alias="sibling")]
        if sibling_first:
            order.reverse()
        nodes = [NodeSpec(0, -1, [], [])] + order
        nodes.sort(key=lambda n: n.idx)
    classes = build_classes(env, nodes)

    async def main():
        async with Context() as owner:
            seen["owner"] = owner
            owner.add_resource(pre, "pre", [RT[0]])
            await start_component(classes[0], {}, timeout=100)

    _, exc, _k = run(main)
    summary = {"context_created_in": f"{['root', 'child'][node]}.{['prepare', 'start'][phase]}()", "inside_a_spawned_task": bool(intask),
               "component_also_published_a_factory": bool(late_factory)}
    if exc is not None:
        return FAIL(f"comp:raised:{type(exc).__name__}", repr(exc), summary)
    if not seen.get("parent_is_owner"):
        return FAIL("comp:parent-is-not-the-callers-context", "", summary)
    if seen["sub"] != seen["owner_now"]:
        return FAIL("comp:context-created-inside-a-component-does-not-see-its-parents-resources", f"sub={seen['sub']} owner={seen['owner_now']}", summary)
    if seen["late"] is not late:
        return FAIL("comp:late-publication-invisible", repr(seen["late"]), summary)
    tnode = 0 if node == 0 else 1
    for label in ("optnowait", "optawait"):
        if env.values.get((tnode, label)) is not late:
            return FAIL(f"comp:optional-lookup-in-the-component-disagrees-with-the-other-lookup-paths:{label}", repr(env.values.get((tnode, label))), summary)
    if late_factory and (isinstance(seen["fac"], Exception) or len(made) != 1):
        return FAIL("comp:late-factory-invisible", repr(seen["fac"]), summary)
    if seen["owner_after"]:
        return FAIL("comp:sub-context-addition-leaked-up", "", summary)
    if node == 1 and env.values.get((1, "sibwait")) is not sib:
        return FAIL(f"comp:waiting-component-lookup-disagrees-with-the-other-lookup-paths:falsy={falsy}", repr(env.values.get((1, "sibwait"))), summary)
    return OK(summary, True)


KCOMP = Harness(
    prop="C02",
    name="K-comp",
    fn=comp_fn,
    params=comp_params,
    cube=lambda tier: 0,
    title="a Context created inside a component's prepare()/start() (ComponentContext current) after the component published resources",
    bound_text=lambda tier: "created in root/child x prepare/start x directly / in a spawned task x component also published a factory x sibling order",
    oracle="its parent is the caller's context and its visible set equals the caller's context's at that moment (incl. what was published after the "
    "tree was built); additions to it do not show up in the caller's context",
    outside="-",
    stubs=STUBS_COMMON,
)
HARNESSES.append(KCOMP)


# ------------------------------------------------------------------------------ G-addrace / T-alias (shared scenarios, C02's clauses)
from . import c03 as _c03  # noqa: E402


@guard
def addrace_fn(a, tier):
    res = _c03._addrace(a, tier, "C02")
    if res.ok or res.sig.startswith(("addrace:child", "addrace:static-not-returned", "addrace:raised", "unexpected-exception")):
        return res
    return OK(res.summary, nontrivial=False)  # identity over time is C03's / C04's clause


ADDRACE = Harness(
    prop="C02",
    name="G-addrace",
    fn=addrace_fn,
    params=_c03.addrace_params,
    cube=lambda tier: 3,
    title="a static resource added while an async multi-type generation is in flight is part of the snapshot a later child takes",
    bound_text=_c03.ADDRACE.bound_text,
    oracle="a successfully added static resource is what the context's lookups return and what a child created afterwards inherits "
    "(get_resources and get_resource_nowait in the child agree)",
    outside="more tasks; factories that raise",
    stubs=STUBS_COMMON,
)


@guard
def alias_fn(a, tier):
    res = _c03.alias_fn(a, tier)
    if res.ok or res.sig.startswith(("alias:get_resources-disagrees", "alias:pairwise-lookups-differ", "alias:raised", "unexpected-exception")):
        return res
    return OK(res.summary, nontrivial=False)


ALIAS = Harness(
    prop="C02",
    name="T-alias",
    fn=alias_fn,
    params=_c03.alias_params,
    cube=lambda tier: 0,
    title="lookup paths agree when the resource type is a parameterised generic or a union (equal but distinct alias objects)",
    bound_text=_c03.ALIAS.bound_text,
    oracle="get_resource, get_resource_nowait and get_resources, each given a freshly evaluated alias, return the same registered object in the "
    "owning context and in a child that inherited it",
    outside="-",
    stubs=STUBS_COMMON,
)
HARNESSES += [ADDRACE, ALIAS]


# ------------------------------------------------------------------------------ K-task
def task_params(tier):
    return [P("kind", 0, 1), P("spawn_late", 0, 1), P("via", 0, 1)]


@guard
def task_fn(a, tier):
    """A task factory / service task started on the application context from inside a request context: its tasks see the
    application context's resources of that moment - nothing of the request context, nothing added later."""
    from asphalt.core import current_context, get_resources

    kind, spawn_late, via = pick(a["kind"], 2), pick(a["spawn_late"], 2), pick(a["via"], 2)
    out = {}
    app_res, secret, later = object(), object(), object()

    async def job():
        ctx = current_context()
        out["sees"] = [dict(get_resources(RT[i])) for i in range(3)]
        chain = []
        c = ctx
        while c is not None:
            chain.append(c)
            c = c.parent
        out["chain"] = chain

    async def main():
        async with Context() as app:
            out["app"] = app
            app.add_resource(app_res, "app", [RT[0]])
            async with Context() as request:
                out["request"] = request
                request.add_resource(secret, "secret", [RT[1]])
                if kind == 0:
                    tf = await (app.start_background_task_factory() if via == 0 else _started_from(app))
                    app.add_resource(later, "later", [RT[2]])
                    if not spawn_late:
                        await (await tf.start_task(job, "job")).wait_finished()
                else:
                    app.add_resource(later, "later", [RT[2]]) if spawn_late else None
                    await app.start_service_task(job, "job")
                    await anyio.sleep(0)
            if kind == 0 and spawn_late:
                await (await tf.start_task(job, "job")).wait_finished()

    async def _started_from(app):
        # the same call made from a task of its own whose current context is the request context
        res = {}

        async def starter():
            res["tf"] = await app.start_background_task_factory()

        async with anyio.create_task_group() as tg:
            tg.start_soon(starter)
        return res["tf"]

    _, exc, _k = run(main)
    summary = {"started_on_the_application_context_from_inside_a_request_context": ["task factory", "service task"][kind],
               "task_spawned": "after the request context was closed" if (spawn_late and kind == 0) else "while the request context was open",
               "call_made_from": ["the request block itself", "a task spawned inside the request block"][via]}
    if exc is not None:
        return FAIL(f"task:raised:{type(exc).__name__}:kind={kind}", repr(exc), summary)
    sees = out.get("sees")
    if sees is None:
        return FAIL("task:never-ran", "", summary)
    exp_later = {"later": later} if (kind == 1 and spawn_late) else {}
    if sees[0] != {"app": app_res} or sees[1] != {} or sees[2] != exp_later:
        what = "sees-the-request-contexts-resource" if sees[1] else "wrong-snapshot-of-the-application-context"
        return FAIL(f"task:{what}:kind={kind}", f"{sees}", summary)
    if out["request"] in out["chain"] or out["app"] not in out["chain"]:
        return FAIL(f"task:context-descends-from-the-request-context:kind={kind}", "", summary)
    return OK(summary, True)


KTASK = Harness(
    prop="C02",
    name="K-task",
    fn=task_fn,
    params=task_params,
    cube=lambda tier: 0,
    title="tasks of a task factory / a service task started on the application context through its METHODS while a request context is current",
    bound_text=lambda tier: "task factory or service task x started from the request block / from a task spawned in it x task spawned while the request "
    "context is open / after it was closed; the request context holds a private resource, the application context gets another resource after the start",
    oracle="the task's context descends from the application context and not from the request context; it sees exactly the application context's resources "
    "of the moment the factory / service was started",
    outside="-",
    stubs=STUBS_COMMON,
)
HARNESSES.append(KTASK)


# ------------------------------------------------------------------------------ J-race (scenario shared with C19)
def _jrace_fn(a, tier):
    from . import c19 as _c19

    return _c19._race(a, tier, 0)


def _jrace_params(tier):
    from . import c19 as _c19

    return _c19.race_params(tier)


JRACE = Harness(
    prop="C02",
    name="J-race",
    fn=guard(_jrace_fn),
    params=_jrace_params,
    cube=lambda tier: 3,
    title="one injected coroutine function called concurrently from two sibling contexts: nothing of the sibling is injected",
    bound_text=lambda tier: "as C19 J-race: two tasks in two contexts call the same @inject coroutine function with two injected parameters (the first static / sync-factory / async-factory, "
    "the second from an async factory awaiting 0-2 checkpoints) under arbitrary schedule prefixes",
    oracle="each call is injected exactly what the explicit lookups in its own context return (nothing sideways; injected parameters agree with the other lookup paths)",
    outside="more than two concurrent calls",
    stubs=STUBS_COMMON,
)
HARNESSES.append(JRACE)


# ------------------------------------------------------------------------------ K-closing
def closing_params(tier):
    return [P("nested", 0, 1), P("how", 0, 2), P("explicit", 0, 1), P("fasync", 0, 1)]


def _closing(a, tier, prop="C02"):
    """While a context is being torn down it is still usable: what it resolved earlier is what it resolves now (C03), and a context created
    from one of its teardown callbacks is its child and sees what it sees (C02)."""
    from asphalt.core import context_teardown, current_context

    nested, how, explicit, fasync = pick(a["nested"], 2), pick(a["how"], 3), pick(a["explicit"], 2), pick(a["fasync"], 2)
    out = {}
    made = []
    static, late = object(), object()

    def sfac():
        made.append(1)
        return ("generated", len(made))

    async def afac():
        made.append(1)
        await anyio.sleep(0)
        return ("generated", len(made))

    async def during_teardown():
        ctx = current_context()
        out["current_is_the_closing_context"] = ctx is out["ctx"]
        ctx.add_resource(late, "late", [RT[2]])
        out["again"] = [await ctx.get_resource(RT[1], "gen"), ctx.get_resource_nowait(RT[1], "gen"), ctx.get_resources(RT[1]).get("gen")]
        child = Context(ctx) if explicit else Context()
        out["child_parent"] = child.parent
        async with child:
            out["child_view"] = [dict(child.get_resources(RT[i])) for i in range(3)]
            out["own_view"] = [dict(ctx.get_resources(RT[i])) for i in range(3)]
            try:
                out["child_gen"] = await child.get_resource(RT[1], "gen")
            except Exception as e:  # noqa
                out["child_gen"] = e

    @context_teardown
    async def managed():
        yield
        await during_teardown()

    async def block():
        async with Context() as ctx:
            out["ctx"] = ctx
            ctx.add_resource(static, "static", [RT[0]])
            ctx.add_resource_factory(afac if fasync else sfac, "gen", types=[RT[1]])
            out["first"] = await ctx.get_resource(RT[1], "gen")
            if how == 0:
                ctx.add_teardown_callback(lambda: during_teardown())
            elif how == 1:
                ctx.add_teardown_callback(during_teardown)
            else:
                await managed()

    async def main():
        if nested:
            async with Context() as root:
                root.add_resource(object(), "root", [RT[0]])
                await block()
        else:
            await block()

    _, exc, _k = run(main)
    summary = {"closing_context": "nested" if nested else "root", "code_running_during_teardown": ["sync callback returning a coroutine", "async callback", "@context_teardown generator"][how],
               "child_created_with": "Context(closing_ctx)" if explicit else "Context()", "factory": "async" if fasync else "sync"}
    if exc is not None:
        return FAIL(f"closing:raised:{type(flatten_one(exc)).__name__}", repr(exc), summary)
    if prop == "C03":
        if any(x is not out["first"] for x in out["again"]) or len(made) < 1:
            return FAIL("closing:pair-resolved-to-another-object-during-teardown", f"first={out['first']!r} during teardown={out['again']!r} factory calls={len(made)}", summary)
        return OK(summary, True)
    if not out.get("current_is_the_closing_context"):
        return FAIL("closing:current-context-during-teardown", "", summary)
    if out["child_parent"] is not out["ctx"]:
        return FAIL("closing:child-created-during-teardown-has-another-parent", repr(out["child_parent"]), summary)
    exp0 = {"static": static}
    if nested:
        exp0 = dict(out["own_view"][0])
    if out["child_view"][0] != out["own_view"][0] or out["child_view"][2] != {"late": late} or "static" not in out["child_view"][0]:
        return FAIL("closing:child-created-during-teardown-does-not-see-its-parents-resources", f"child={out['child_view']} parent={out['own_view']}", summary)
    if out["child_view"][1] != {}:
        return FAIL("closing:child-inherited-a-generated-resource", f"{out['child_view'][1]}", summary)
    if isinstance(out["child_gen"], Exception) or out["child_gen"] is out["first"]:
        return FAIL("closing:child-cannot-use-the-parents-factory-or-shares-its-product", repr(out["child_gen"]), summary)
    return OK(summary, True)


def flatten_one(e):
    while isinstance(e, BaseExceptionGroup) and e.exceptions:
        e = e.exceptions[0]
    return e


KCLOSING = Harness(
    prop="C02",
    name="K-closing",
    fn=guard(lambda a, tier: _closing(a, tier, "C02")),
    params=closing_params,
    cube=lambda tier: 0,
    title="a context created from a teardown callback of a context that is being torn down",
    bound_text=lambda tier: "closing context root / nested; code run by a sync callback returning a coroutine / an async callback / the second half of a @context_teardown generator; "
    "child made with Context() / Context(closing_ctx); the closing context holds a static resource, a sync / async factory already used once, and adds a resource during teardown",
    oracle="the child's parent is the closing context; it sees exactly the closing context's static resources (incl. the one added during teardown), not its generated one, and can "
    "generate its own from the inherited factory",
    outside="-",
    stubs=STUBS_COMMON,
)
HARNESSES.append(KCLOSING)
