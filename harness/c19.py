"""C19 -- @inject is equivalent to explicit lookups in the current context."""
from __future__ import annotations

from typing import Optional  # noqa: F401  (used by generated code)

import anyio

from .common import FAIL, OK, STUBS_COMMON, Harness, P, Tape, guard, pick, run

from asphalt.core import (  # noqa: E402
    AsyncResourceError,
    Context,
    ResourceNotFound,
    current_context,
    inject,
    resource,
)


class T0:
    pass


class T1:
    pass


SHAPES = [
    ("keyword-only injected parameter after an ordinary one", "def {name}(x, *, r: {ann0} = resource({n0})):\n    BODY\n    return ('f', x, r)"),
    ("positional-or-keyword injected parameter before a defaulted one", "def {name}(r: {ann0} = resource({n0}), x=5):\n    BODY\n    return ('f', x, r)"),
    ("two injected parameters with different names and an ordinary keyword-only one",
     "def {name}(x, *, r: {ann0} = resource({n0}), k=7, r2: {ann1} = resource('second')):\n    BODY\n    return ('f', x, k, r, r2)"),
    ("injected parameter passed explicitly by the caller is not expected", "def {name}(x, y=2, *, r: {ann0} = resource({n0})):\n    BODY\n    return ('f', x, y, r)"),
]
ANNS = [("T0", False), ("Optional[T0]", True), ("T0 | None", True), ("'T0'", False), ("'Optional[T0]'", True), ("'LocalT'", False),
        ("None | T0", True), ("Union[None, T0]", True)]
STATES = ["static resource", "sync factory (not yet generated)", "async factory (not yet generated)", "inherited from the parent context", "missing"]
SITES = ["same context", "nested child context", "another task spawned from the context", "a task running in an unrelated context"]


class Val:
    def __init__(self, label):
        self.label = label

    def __repr__(self):
        return f"<{self.label}>"


def _plain_decorator(fn):
    """An ordinary functools.wraps-based decorator sitting UNDER @inject."""
    import functools
    import inspect

    if inspect.iscoroutinefunction(fn):

        @functools.wraps(fn)
        async def awrapper(*a, **kw):
            return await fn(*a, **kw)

        return awrapper

    @functools.wraps(fn)
    def wrapper(*a, **kw):
        return fn(*a, **kw)

    return wrapper


def build_fn(shape, ann, is_async, name0, log, wrapped=False):
    """exec the function source inside a helper function, so that a *local* class is only
    resolvable through inject's captured local namespace."""
    LocalT = T0  # noqa: F841 - referenced by the string annotation 'LocalT'
    src = SHAPES[shape][1].format(name="f", ann0=ANNS[ann][0], ann1="Optional[T1]", n0=repr(name0) if name0 != "default" else "")
    src = src.replace("BODY", "log.append('body')")
    if is_async:
        src = "async " + src
    from typing import Union

    ns = {"resource": resource, "T0": T0, "T1": T1, "Optional": Optional, "Union": Union, "log": log, "LocalT": LocalT}
    if ANNS[ann][0] == "'LocalT'":
        # a real closure-local name: compile inside a nested function scope
        code = "def outer():\n    LocalT = T0\n" + "\n".join("    " + ln for ln in src.splitlines()) + "\n    return f, inject(f)\n"
        ns.pop("LocalT")
        ns["inject"] = inject
        exec(code, ns)
        return ns["outer"]()
    exec(src, ns)
    f = ns["f"]
    if wrapped:
        f = _plain_decorator(f)
    return f, inject(f)


def params(tier):
    return [P("shape", 0, 3), P("ann", 0, 7), P("is_async", 0, 1), P("s0", 0, 4), P("s1", 0, 4), P("site", 0, 3), P("name", 0, 1), P("wrapped", 0, 1)]


@guard
def fn(a, tier):
    shape, ann, is_async = pick(a["shape"], 4), pick(a["ann"], 8), pick(a["is_async"], 2)
    wrapped = pick(a["wrapped"], 2) if ANNS[ann][0] != "'LocalT'" else 0
    s0 = pick(a["s0"], 5)
    s1 = pick(a["s1"], 5) if shape == 2 else 4
    site = pick(a["site"], 4)
    name0 = ["default", "other"][pick(a["name"], 2)]
    optional0 = ANNS[ann][1]

    def scenario(use_injected):
        log = []
        fns = {}
        out = {}

        def provide(ctx_parent, ctx, t, name, state, tag):
            if state == 0:
                ctx.add_resource(Val(f"static-{tag}"), name, [t])
            elif state == 1:
                ctx.add_resource_factory(lambda: Val(f"sync-made-{tag}"), name, types=[t])
            elif state == 2:
                async def fac():
                    await anyio.sleep(0)
                    return Val(f"async-made-{tag}")
                ctx.add_resource_factory(fac, name, types=[t])
            elif state == 3:
                ctx_parent.add_resource(Val(f"inherited-{tag}"), name, [t])

        async def explicit(ctx):
            """The statement's right-hand side: explicit lookups in the current context."""
            kw = {}
            deps = [("r", T0, name0, optional0)] + ([("r2", T1, "second", True)] if shape == 2 else [])
            for argname, t, nm, opt in deps:
                if is_async:
                    kw[argname] = await ctx.get_resource(t, nm, optional=True) if opt else await ctx.get_resource(t, nm)
                else:
                    kw[argname] = ctx.get_resource_nowait(t, nm, optional=True) if opt else ctx.get_resource_nowait(t, nm)
            return kw

        async def call():
            args = (1,) if shape != 1 else ()
            try:
                orig, injected = fns["pair"]
                if use_injected:
                    r = injected(*args)
                    r = await r if is_async else r
                else:
                    kw = await explicit(current_context())
                    r = orig(*args, **kw)
                    r = await r if is_async else r
                out["result"] = tuple(x.label if isinstance(x, Val) else x for x in r)
            except Exception as e:
                out["exc"] = type(e).__name__
            out["body_runs"] = log.count("body")

        async def main():
            async with Context() as parent:
                # the decorator is applied while ANOTHER context (the parent) is current: the context that
                # matters is the one current at call time
                fns["pair"] = build_fn(shape, ann, is_async, name0, log, wrapped)
                for st, t, nm, tag in ((s0, T0, name0, "dep0"), (s1, T1, "second", "dep1")):
                    if st == 3:
                        provide(parent, None, t, nm, st, tag)
                async with Context() as ctx:
                    for st, t, nm, tag in ((s0, T0, name0, "dep0"), (s1, T1, "second", "dep1")):
                        if st != 3:
                            provide(parent, ctx, t, nm, st, tag)
                    # decoys under other names / types must never be picked up
                    ctx.add_resource(Val("decoy-name"), "decoy", [T0])
                    if site == 0:
                        await call()
                    elif site == 1:
                        async with Context():
                            await call()
                    elif site == 2:
                        async with anyio.create_task_group() as tg:
                            tg.start_soon(call)
                    else:
                        done = anyio.Event()

                        async def elsewhere():
                            async with Context() as unrelated:
                                unrelated.add_resource(Val("unrelated-dep0"), name0, [T0])
                                await call()
                            done.set()

                        async with anyio.create_task_group() as tg:
                            # a task whose current context is NOT ctx
                            tg.start_soon(_in_empty_context, elsewhere)
                        await done.wait()

        _, exc, _k = run(main)
        if exc is not None:
            out["escaped"] = type(exc).__name__
        return out

    got = scenario(True)
    exp = scenario(False)
    summary = {"signature": SHAPES[shape][0], "annotation": ANNS[ann][0], "function": ("async def" if is_async else "def") + (" under another functools.wraps decorator" if wrapped else ""),
               "dependency_0": STATES[s0] + f" under name {name0!r}", "dependency_1": STATES[s1] if shape == 2 else "-", "call_site": SITES[site],
               "explicit_lookup_gives": exp}
    if got != exp:
        return FAIL(f"inject-differs:{ANNS[ann][0]}:{'async' if is_async else 'sync'}:dep0={STATES[s0]}:site={SITES[site]}:shape={shape}",
                    f"injected call -> {got}; explicit lookups -> {exp}", summary)
    if "exc" in got and got["body_runs"] != 0:
        return FAIL("body-ran-although-lookup-failed", got, summary)
    return OK(summary, True)


async def _in_empty_context(fn):
    """Run fn() with asphalt's current context cleared (as in a task started elsewhere)."""
    import asphalt.core._context as c

    token = c._current_context.set(None)
    try:
        await fn()
    finally:
        c._current_context.reset(token)


H = Harness(
    prop="C19",
    name="J-equiv",
    fn=fn,
    params=params,
    cube=lambda tier: 3,
    title="injected call vs the same function called with explicit lookups, in two identical fresh worlds",
    bound_text=lambda tier: "signature in {" + "; ".join(s[0] for s in SHAPES) + "} x annotation in {" + ", ".join(x[0] for x in ANNS)
    + "} x def/async def x state of each dependency {" + "; ".join(STATES) + "} x resource name default/other x call site {" + "; ".join(SITES) + "}",
    oracle="result tuple (ordinary arguments unchanged, injected values by label) or exception class equals that of calling the undecorated function "
    "with get_resource (async def) / get_resource_nowait (def) results, optional=True for Optional/`| None` annotations; the body does not run "
    "when a lookup fails",
    outside="Union annotations with several non-None members; positional passing of injected parameters",
    stubs=STUBS_COMMON + ("one call site clears asphalt's private _current_context variable to model a task started outside any context",),
)


# ------------------------------------------------------------------------------ decoration-time
def deco_params(tier):
    return [P("kind", 0, 2), P("ann", 0, 1), P("called", 0, 1), P("other", 0, 2), P("lead", 0, 1), P("is_async", 0, 1)]


@guard
def deco_fn(a, tier):
    kind, ann, called = pick(a["kind"], 3), pick(a["ann"], 2), pick(a["called"], 2)
    other, lead, is_async = pick(a["other"], 3), pick(a["lead"], 2), pick(a["is_async"], 2)
    subject = "r" + (": T0" if ann else "") + " = " + ("resource('n')" if called else "resource")
    good = "good: T0 = resource()"
    parts = ["a"] if lead else []
    if other == 1:
        parts.append(good)
    if kind == 2:
        parts.append("*")
    parts.append(subject)
    if kind == 0:
        parts.append("/")
    if other == 2:
        parts.append(good)
    src = ("async " if is_async else "") + f"def f({', '.join(parts)}): pass"
    # the statement: positional-only, unannotated or uncalled markers are rejected when the decorator is applied
    invalid = kind == 0 or not ann or not called
    name = f"{['positional-only', 'positional-or-keyword', 'keyword-only'][kind]} / {'annotated' if ann else 'unannotated'} / {'resource(...)' if called else 'uncalled `resource`'}"
    ns = {"resource": resource, "T0": T0}
    exec(src, ns)
    try:
        inject(ns["f"])
        raised = None
    except Exception as e:
        raised = type(e)
    expect = TypeError if invalid else None
    summary = {"signature": src}
    if raised is not expect:
        return FAIL(f"decoration:{name}:raised={raised.__name__ if raised else None}", src, summary)
    return OK(summary, True)


DECO = Harness(
    prop="C19",
    name="J-deco",
    fn=deco_fn,
    params=deco_params,
    cube=lambda tier: 0,
    title="markers rejected (or accepted) when the decorator is applied",
    bound_text=lambda tier: "the marked parameter positional-only / positional-or-keyword / keyword-only x annotated or not x `resource(...)` or the uncalled `resource` x alone / "
    "after / before another, valid injected parameter x with or without a leading ordinary parameter x def / async def (144 signatures)",
    oracle="TypeError at decoration time for positional-only / unannotated / uncalled markers; valid ones accepted",
    outside="-",
)


# ------------------------------------------------------------------------------ race
def race_params(tier):
    S = 6 if tier == "quick" else 9
    return [P("fsteps", 0, 2), P("order", 0, 1), P("firstkind", 0, 2)] + [P(f"s{i}", 0, 3) for i in range(S)]


FIRSTKINDS = ["a static resource", "generated by a sync factory", "generated by an async factory"]


def _race(a, tier, min_firstkind=0):
    S = 6 if tier == "quick" else 9
    fsteps, order = pick(a["fsteps"], 3), pick(a["order"], 2)
    firstkind = pick(a["firstkind"], 3)
    if firstkind < min_firstkind:
        return OK({"skipped": "first parameter not factory-generated"}, nontrivial=False)
    tape = Tape([a[f"s{i}"] for i in range(S)])

    @inject
    async def f(tag, *, first: T0 = resource(), second: T1 = resource()):
        return (tag, first.label, second.label)

    results, explicit = {}, {}

    async def worker(tag, delay):
        async with Context() as ctx:
            if firstkind == 0:
                ctx.add_resource(Val(f"first-{tag}"), types=[T0])
            elif firstkind == 1:
                ctx.add_resource_factory(lambda: Val(f"first-{tag}"), types=[T0])
            else:

                async def fac0():
                    return Val(f"first-{tag}")

                ctx.add_resource_factory(fac0, types=[T0])

            async def fac():
                for _ in range(fsteps if tag == "A" else delay):
                    await anyio.sleep(0)
                return Val(f"second-{tag}")

            ctx.add_resource_factory(fac, types=[T1])
            results[tag] = await f(tag)
            explicit[tag] = (tag, (await ctx.get_resource(T0)).label, (await ctx.get_resource(T1)).label)

    async def main():
        async with anyio.create_task_group() as tg:
            for tag in (("A", "B") if order == 0 else ("B", "A")):
                tg.start_soon(worker, tag, 0)

    _, exc, _k = run(main, chooser=tape)
    summary = {"factory_checkpoints_in_A": fsteps, "spawn_order": "A,B" if order == 0 else "B,A", "schedule": tape.taken,
               "first_injected_parameter_is": FIRSTKINDS[firstkind]}
    if exc is not None:
        return FAIL(f"race:raised:{type(exc).__name__}", repr(exc), summary)
    for tag in ("A", "B"):
        if results.get(tag) != (tag, f"first-{tag}", f"second-{tag}") or explicit.get(tag) != results.get(tag):
            return FAIL("race:injected-values-from-another-context", f"injected={results} explicit lookups in the same contexts={explicit}", summary)
    return OK(summary, True)


race_fn = guard(_race)


RACE = Harness(
    prop="C19",
    name="J-race",
    fn=race_fn,
    params=race_params,
    cube=lambda tier: 2,
    title="two tasks in different contexts call the same injected coroutine function concurrently",
    bound_text=lambda tier: f"two injected parameters, the first static / generated by a sync / an async factory, the second served by an async factory awaiting 0-2 checkpoints; first {6 if tier == 'quick' else 9} scheduling decisions arbitrary",
    oracle="each call receives the resources of its own current context",
    outside="more than two concurrent calls",
    stubs=STUBS_COMMON,
)

# ------------------------------------------------------------------------------ J-cancel / J-state
import symsched  # noqa: E402

CTX_STATES = ["open", "being torn down (called from a teardown callback)", "already closed (a task that outlives the block it was spawned in)"]


def cancel_params(tier):
    return [P("mode", 0, 1), P("c", 0, 4), P("fsteps", 0, 2), P("state", 0, 2), P("is_async", 0, 1), P("present", 0, 2)]


@guard
def cancel_fn(a, tier):
    mode = pick(a["mode"], 2)
    if mode == 0:
        return _cancel_race(pick(a["c"], 5), pick(a["fsteps"], 3))
    return _state_equiv(pick(a["state"], 3), pick(a["is_async"], 2), pick(a["present"], 3))


def _cancel_race(c, fsteps):
    """The same schedule twice - explicit lookups, then the injected call: a cancellation of the caller while the lookup is pending behaves alike."""

    @inject
    async def injected(x, *, r: T1 = resource("slow")):
        return ("body", x, r.label)

    async def explicit(x):
        r = await current_context().get_resource(T1, "slow")
        return ("body", x, r.label)

    def scenario(call):
        log = []

        async def main():
            async with Context() as ctx, anyio.create_task_group() as tg:
                release = anyio.Event()
                holder = {}

                async def factory():
                    log.append("factory_begin")
                    for _ in range(fsteps):
                        await anyio.sleep(0)
                    await release.wait()
                    log.append("factory_end")
                    return Val("made")

                ctx.add_resource_factory(factory, "slow", types=[T1])

                async def caller():
                    with anyio.CancelScope() as scope:
                        holder["scope"] = scope
                        try:
                            log.append(("returned", await call(1)))
                        except symsched.Cancelled:
                            log.append("caller_cancelled")
                            raise
                    log.append(("caller_left", scope.cancelled_caught))

                tg.start_soon(caller)
                for _ in range(c):
                    await anyio.sleep(0)
                log.append("cancel")
                holder["scope"].cancel() if "scope" in holder else log.append("cancel-too-early")
                for _ in range(5):
                    await anyio.sleep(0)
                log.append("release")
                release.set()

        _, exc, _k = run(main)
        return log, exc

    log_e, exc_e = scenario(explicit)
    log_i, exc_i = scenario(injected)
    summary = {"cancel_after_checkpoints": c, "factory_checkpoints_before_it_blocks": fsteps, "explicit": [str(x) for x in log_e], "injected": [str(x) for x in log_i]}
    if exc_e is not None or exc_i is not None:
        return FAIL(f"cancel:raised:{type(exc_e or exc_i).__name__}", f"{exc_e!r} {exc_i!r}", summary)
    if log_i != log_e:
        return FAIL("cancel:injected-call-cancelled-during-its-lookup-behaves-unlike-the-explicit-lookups", f"explicit={log_e} injected={log_i}", summary)
    return OK(summary, "caller_cancelled" in log_e)


def _state_equiv(state, is_async, present):
    """Explicit lookups vs the injected call with the current context open / closing / closed."""
    names = ["static", "absent", "inherited"][present]

    if is_async:

        @inject
        async def injected(*, r: T0 = resource("res"), o: Optional[T1] = resource("opt")):
            return ("body", r.label, o and o.label)

        async def explicit():
            ctx = current_context()
            r = await ctx.get_resource(T0, "res")
            o = await ctx.get_resource(T1, "opt", optional=True)
            return ("body", r.label, o and o.label)

    else:

        @inject
        def injected(*, r: T0 = resource("res"), o: Optional[T1] = resource("opt")):
            return ("body", r.label, o and o.label)

        def explicit():
            ctx = current_context()
            r = ctx.get_resource_nowait(T0, "res")
            o = ctx.get_resource_nowait(T1, "opt", optional=True)
            return ("body", r.label, o and o.label)

    def scenario(call):
        out = {}

        async def attempt():
            try:
                r = call()
                out["result"] = ("ok", await r if is_async else r)
            except Exception as e:
                out["result"] = ("exc", type(e).__name__)

        async def main():
            async with anyio.create_task_group() as outer:
                async with Context() as parent:
                    if present == 2:
                        parent.add_resource(Val("the-resource"), "res", [T0])
                    gate = anyio.Event()
                    async with Context() as ctx:
                        if present == 0:
                            ctx.add_resource(Val("the-resource"), "res", [T0])
                            ctx.add_resource(Val("the-optional-one"), "opt", [T1])  # every injected parameter is present in the context's own table
                        if state == 0:
                            await attempt()
                        elif state == 1:
                            ctx.add_teardown_callback(attempt)
                        else:

                            async def straggler():
                                await gate.wait()
                                await attempt()

                            outer.start_soon(straggler)  # inherits the current context of its spawner
                            await anyio.sleep(0)
                    gate.set()
                    await anyio.wait_all_tasks_blocked()

        _, exc, _k = run(main)
        return out.get("result"), exc

    res_e, exc_e = scenario(explicit)
    res_i, exc_i = scenario(injected)
    summary = {"current_context": CTX_STATES[state], "function": "async def" if is_async else "def", "resource": names, "explicit": res_e, "injected": res_i}
    if exc_e is not None or exc_i is not None:
        return FAIL(f"state:raised:{type(exc_e or exc_i).__name__}", f"{exc_e!r} {exc_i!r}", summary)
    if res_i != res_e:
        return FAIL(f"state:injected-call-differs-from-explicit-lookups:context={state}:async={is_async}:resource={names}", f"explicit={res_e} injected={res_i}", summary)
    return OK(summary, True)


CANCEL = Harness(
    prop="C19",
    name="J-cancel",
    fn=cancel_fn,
    params=cancel_params,
    cube=lambda tier: 1,
    title="equivalence with the explicit lookups when the call is cancelled during its lookup, and when the current context is closing or closed",
    bound_text=lambda tier: "(a) injected async function whose resource comes from an async factory that awaits 0-2 checkpoints and then blocks; the caller's scope is "
    "cancelled after 0-4 checkpoints, the factory released 5 checkpoints later; (b) sync/async injected function called while the current context is {"
    + "; ".join(CTX_STATES) + "} with the resource static / absent / inherited",
    oracle="the event log (a) resp. the outcome (b) of the injected call equals that of a function performing the explicit get_resource / get_resource_nowait "
    "calls under the same deterministic schedule",
    outside="other schedules than FIFO for (a)",
    stubs=STUBS_COMMON,
)

# ------------------------------------------------------------------------------ J-factory
NAMES = ["default", "2nd", "0", "caf\u00e9"]


def _make_getter(cls, name, is_async):
    """One `def`, many injected functions: the annotation and the resource name are parameters of the enclosing call."""
    if is_async:

        @inject
        async def getter(*, res: cls = resource(name)):
            return res

    else:

        @inject
        def getter(*, res: cls = resource(name)):
            return res

    return getter


def fac_params(tier):
    return [P("is_async", 0, 1), P("name", 0, 3), P("second", 0, 2), P("order", 0, 1)]


@guard
def fac_fn(a, tier):
    is_async, name = pick(a["is_async"], 2), NAMES[pick(a["name"], 4)]
    second, order = pick(a["second"], 3), pick(a["order"], 2)
    ann2 = [T1, Optional[T1], Optional[T0]][second]
    out = {}

    async def call(fn):
        try:
            r = fn()
            r = await r if is_async else r
            return ("ok", r.label if isinstance(r, Val) else r)
        except Exception as e:
            return ("exc", type(e).__name__)

    async def main():
        g1 = _make_getter(T0, name, is_async)
        g2 = _make_getter(ann2, name, is_async)
        async with Context() as ctx:
            ctx.add_resource(Val("the T0"), name, [T0])
            if second == 0:
                ctx.add_resource(Val("the T1"), name, [T1])
            else:
                # a short-lived child context registers a T1 factory of its own: nothing of that is visible in `ctx` afterwards
                async with Context() as child:
                    child.add_resource_factory(lambda: Val("made in a child context"), name, types=[T1])
            seq = [("g1", g1), ("g2", g2), ("g1", g1)] if order == 0 else [("g2", g2), ("g1", g1), ("g2", g2)]
            out["calls"] = [(tag, await call(fn)) for tag, fn in seq]
            # explicit lookups in the same context
            out["exp"] = {"g1": ("ok", "the T0"), "g2": [("ok", "the T1"), ("ok", None), ("ok", "the T0")][second]}

    try:
        _, exc, _k = run(main)
    except Exception as e:  # decoration itself may fail
        exc = e
    summary = {"functions": "two injected functions made from ONE def: annotated T0 and " + ["T1", "Optional[T1] (missing)", "Optional[T0]"][second],
               "kind": "async def" if is_async else "def", "resource_name": name, "call_order": "g1,g2,g1" if order == 0 else "g2,g1,g2"}
    if exc is not None:
        return FAIL(f"factory:raised:{type(exc).__name__}:name={name}", repr(exc), summary)
    for tag, got in out["calls"]:
        if got != out["exp"][tag]:
            return FAIL(f"factory:injected-function-bound-to-another-functions-annotation-or-name:second={second}:name={name}", f"{out['calls']} expected {out['exp']}", summary)
    return OK(summary, True)


FACT = Harness(
    prop="C19",
    name="J-factory",
    fn=fac_fn,
    params=fac_params,
    cube=lambda tier: 0,
    title="several injected functions created from one `def` (annotation and resource name supplied by the enclosing call)",
    bound_text=lambda tier: "def / async def; resource name in " + str(NAMES) + "; first function annotated T0, second T1 / Optional[T1] with nothing registered / Optional[T0]; "
    "called in the order g1,g2,g1 or g2,g1,g2 in one context",
    oracle="each call returns what the explicit lookup of ITS annotated type and name returns in that context (None for the missing Optional one)",
    outside="-",
    stubs=STUBS_COMMON,
)

# ------------------------------------------------------------------------------ J-evaluated
EVAL_ANNS = [("Optional['T0']", True), ("Union['T0', None]", True), ("Annotated[T0, 'meta']", False), ("T0", False), ("Optional[T0]", True), ("'T0 | None'", True)]


def eval_params(tier):
    return [P("ann", 0, len(EVAL_ANNS) - 1), P("is_async", 0, 1), P("present", 0, 1)]


@guard
def eval_fn(a, tier):
    """A module WITHOUT `from __future__ import annotations`: annotations are evaluated objects, possibly with a quoted name inside."""
    from typing import Annotated, Union

    ann, is_async, present = pick(a["ann"], len(EVAL_ANNS)), pick(a["is_async"], 2), pick(a["present"], 2)
    text, optional = EVAL_ANNS[ann]
    src = ("async " if is_async else "") + f"def f(x, *, r: {text} = resource()):\n    return (x, r)\n"
    ns = {"resource": resource, "T0": T0, "Optional": Optional, "Union": Union, "Annotated": Annotated, "__name__": "plain_module"}
    exec(compile(src, "<module without the annotations future import>", "exec", dont_inherit=True), ns)
    out = {}

    async def main():
        injected = inject(ns["f"])
        async with Context() as ctx:
            value = Val("the T0")
            if present:
                ctx.add_resource(value, types=[T0])
            try:
                r = injected(7)
                r = await r if is_async else r
                out["got"] = ("ok", r[0], r[1])
            except Exception as e:
                out["got"] = ("exc", type(e).__name__)
            out["exp"] = ("ok", 7, value) if present else (("ok", 7, None) if optional else ("exc", "ResourceNotFound"))

    try:
        _, exc, _k = run(main)
    except Exception as e:
        exc = e
    summary = {"annotation": text, "function": "async def" if is_async else "def", "resource": "present" if present else "missing"}
    if exc is not None:
        return FAIL(f"evaluated:raised:{type(exc).__name__}:{text}", repr(exc), summary)
    g, e = out["got"], out["exp"]
    if g[0] != e[0] or (g[0] == "ok" and (g[1] != e[1] or g[2] is not e[2])) or (g[0] == "exc" and g != e):
        return FAIL(f"evaluated:injected-call-differs-from-the-explicit-lookup:{text}:present={present}", f"got {g!r} expected {e!r}", summary)
    return OK(summary, True)


EVALD = Harness(
    prop="C19",
    name="J-evaluated",
    fn=eval_fn,
    params=eval_params,
    cube=lambda tier: 0,
    title="injected functions defined in a module without the annotations future import (evaluated annotation objects, quoted names inside)",
    bound_text=lambda tier: "annotation in {" + ", ".join(t for t, _ in EVAL_ANNS) + "} x def / async def x resource present / missing",
    oracle="the parameter is bound to what the explicit lookup of T0 returns; Optional forms give None when nothing matches, the others raise ResourceNotFound",
    outside="-",
    stubs=STUBS_COMMON,
)

# ------------------------------------------------------------------------------ J-late
def late_params(tier):
    return [P("is_async", 0, 1), P("nested_fn", 0, 1), P("present", 0, 1), P("optional", 0, 1)]


@guard
def late_fn(a, tier):
    is_async, nested_fn, present, optional = pick(a["is_async"], 2), pick(a["nested_fn"], 2), pick(a["present"], 2), pick(a["optional"], 2)
    ann = "'Optional[Later]'" if optional else "'Later'"
    body = f"def f(*, r: {ann} = resource()):\n    return ('f', r)"
    if is_async:
        body = "async " + body
    ns = {"resource": resource, "inject": inject, "Optional": Optional}
    if nested_fn:
        src = "def outer():\n" + "\n".join("    " + ln for ln in body.splitlines()) + "\n    return inject(f)\n"
        exec(src, ns)
        injected = ns["outer"]()
    else:
        exec(body, ns)
        injected = inject(ns["f"])
    out = {}

    async def call(tag):
        try:
            r = injected()
            r = await r if is_async else r
            out[tag] = ("ok", r[1].label if isinstance(r[1], Val) else r[1])
        except Exception as e:
            out[tag] = ("exc", type(e).__name__)

    async def main():
        async with Context() as ctx:
            if present:
                ctx.add_resource(Val("the-resource"), types=[T0])
            await call("first")  # the annotation cannot be resolved yet: a NameError is legitimate here
            ns["Later"] = T0  # ... the class gets defined (import cycle resolved, module finished loading)
            await call("second")
            await call("third")

    _, exc, _k = run(main)
    summary = {"function": ("async " if is_async else "") + ("nested def" if nested_fn else "module-level def"), "annotation": ann,
               "resource": "present" if present else "missing"}
    if exc is not None:
        return FAIL(f"late:raised:{type(exc).__name__}", repr(exc), summary)
    exp = ("ok", "the-resource") if present else (("ok", None) if optional else ("exc", "ResourceNotFound"))
    if nested_fn:
        # a function-local forward reference is resolved through the namespace captured at decoration time,
        # which cannot learn about names defined later: only the module-level variant is judged after the definition
        return OK(summary, False) if out["first"][0] == "exc" else FAIL("late:unresolvable-reference-accepted", out, summary)
    if out["first"] != ("exc", "NameError"):
        return FAIL("late:first-call-with-unresolvable-annotation", out, summary)
    if out["second"] != exp or out["third"] != exp:
        return FAIL(f"late:call-after-the-reference-became-resolvable:{out['second']}", f"{out} expected {exp}", summary)
    return OK(summary, True)


LATE = Harness(
    prop="C19",
    name="J-late",
    fn=late_fn,
    params=late_params,
    cube=lambda tier: 0,
    title="a string forward reference that only becomes resolvable after a first, failing call",
    bound_text=lambda tier: "def / async def x module-level / nested x resource present / missing x Optional or not",
    oracle="once the name exists, calls behave exactly like the explicit lookup (value / None / ResourceNotFound); the failed first call leaves nothing behind",
    outside="-",
    stubs=STUBS_COMMON,
)


# ------------------------------------------------------------------------------ J-comp
from .ctree import Env, NodeSpec, build_classes  # noqa: E402

from asphalt.core import get_resource, start_component  # noqa: E402


def comp_params(tier):
    return [P("explicit", 0, 1), P("phase", 0, 1), P("order", 0, 1)] + [P(f"s{i}", 0, 3) for i in range(3 if tier == "quick" else 6)]


@inject
async def _needs(*, r: T0 = resource("late")):
    return r


@guard
def comp_fn(a, tier):
    S = 3 if tier == "quick" else 6
    explicit, phase, order = pick(a["explicit"], 2), pick(a["phase"], 2), pick(a["order"], 2)
    tape = Tape([a[f"s{i}"] for i in range(S)])
    env = Env()
    val = Val("published-later")
    got = {}

    def consumer(env_, nd):
        async def go():
            # inside prepare()/start() the current context is the component's: a non-optional lookup WAITS for a sibling
            got["r"] = await get_resource(T0, "late") if explicit else await _needs()

        return go()

    cons = NodeSpec(1, 0, [("call", consumer)] if phase == 0 else [], [("call", consumer)] if phase == 1 else [])
    prov = NodeSpec(2, 0, [("cp",), ("cp",), ("pub", "late", val, "late", [T0])], [])
    kids = [cons, prov] if order == 0 else [prov, cons]
    for i, k in enumerate(kids):
        k.alias = f"k{i}{k.idx}"
    nodes = sorted([NodeSpec(0, -1, [], [])] + kids, key=lambda n: n.idx)
    classes = build_classes(env, nodes)

    async def main():
        async with Context():
            await start_component(classes[0], {}, timeout=100)

    _, exc, _k = run(main, chooser=tape)
    summary = {"lookup": "explicit await get_resource()" if explicit else "injected coroutine function", "inside": ["prepare()", "start()"][phase],
               "consumer_declared_first": order == 0, "schedule": tape.taken}
    if exc is not None:
        return FAIL(f"comp:{'explicit' if explicit else 'injected'}-lookup-did-not-wait-for-the-sibling:{type(exc).__name__}", repr(exc), summary)
    if got.get("r") is not val:
        return FAIL("comp:wrong-object", repr(got.get("r")), summary)
    return OK(summary, True)


COMP = Harness(
    prop="C19",
    name="J-comp",
    fn=comp_fn,
    params=comp_params,
    cube=lambda tier: 2,
    title="an injected coroutine called inside a component's prepare()/start() while the resource is published later by a sibling",
    bound_text=lambda tier: f"explicit vs injected lookup x prepare/start x declaration order x first {3 if tier == 'quick' else 6} scheduling decisions arbitrary",
    oracle="the injected call behaves like `await get_resource(T)` in the current (component) context: it waits for the sibling and gets the published object",
    outside="-",
    stubs=STUBS_COMMON,
)

HARNESSES = [H, DECO, RACE, CANCEL, FACT, EVALD, LATE, COMP]
