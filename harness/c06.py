"""C06 -- Waiting for a resource during startup has no lost or false wake-ups."""
from __future__ import annotations

import anyio

from .common import FAIL, OK, STUBS_COMMON, DeviationTape, Harness, P, Tape, guard, pick, run
from .ctree import RT, Env, NodeSpec, build_classes

import symsched
from asphalt.core import Context, ResourceNotFound, start_component  # noqa: E402

T, OTHER = RT[0], RT[1]
MATCH_KINDS = ["add_resource(T,'special')", "add_resource_factory(T,'special')", "add_resource([OTHER,T],'special')",
               "alias 'p/special': add_resource(T) with the default name in start()", "falsy value {} as (T,'special')",
               "add_resource_factory(T,'special') with an ASYNC factory",
               "add_resource_factory(T,'special') with a factory returning an awaitable OBJECT (not a coroutine)",
               "add_resource([T,OTHER],'special') - the waited-for type listed FIRST"]
FILLERS = ["same name, other type", "same type, other name"]


def publisher_steps(env, vals, match_kind, pos, fillers, cps):
    steps = []
    fi = 0
    for i in range(3):
        if i == pos:
            v = vals["match"]
            if match_kind == 0:
                steps.append(("pub", "MATCH", v, "special", [T]))
            elif match_kind == 1:
                def cb(v=v):
                    env.ev("factory_called")
                    return v
                steps.append(("fac", "MATCH", cb, "special", [T]))
            elif match_kind == 5:
                async def acb(v=v):
                    env.ev("factory_called")
                    await anyio.sleep(0)
                    return v
                steps.append(("fac", "MATCH", acb, "special", [T]))
            elif match_kind == 6:
                class _Handle:
                    def __init__(self, v):
                        self.v = v

                    def __await__(self):
                        yield from anyio.sleep(0).__await__()
                        return self.v

                def hcb(v=v):
                    env.ev("factory_called")
                    return _Handle(v)
                steps.append(("fac", "MATCH", hcb, "special", [T]))
            elif match_kind == 7:
                steps.append(("pub", "MATCH", v, "special", [T, OTHER]))
            elif match_kind == 2:
                steps.append(("pub", "MATCH", v, "special", [OTHER, T]))
            elif match_kind == 3:
                steps.append(("pub", "MATCH", v, "default", [T]))
            else:
                steps.append(("pub", "MATCH", v, "special", [T]))
        else:
            f = fillers[fi]
            fi += 1
            if f == 0:
                # same name, other type -- only while that key is free (one per run)
                steps.append(("pub", f"filler{i}", object(), "special", [RT[2 + fi]]))
            else:
                steps.append(("pub", f"filler{i}", object(), f"other{i}", [T]))
        if cps and i < 2:
            steps.append(("cp",))
    return steps


def sched_cfg(tier):
    # (deviations, horizon)
    return (1, 10) if tier == "quick" else (1, 16)


def sched_params(tier):
    D, L = sched_cfg(tier)
    ps = [P("mk", 0, 7), P("pos", 0, 2), P("cps", 0, 1), P("wphase", 0, 1), P("pphase", 0, 1), P("f0", 0, 1)]
    if tier != "quick":
        ps += [P("wdelay", 0, 2), P("f1", 0, 1)]
    for j in range(D):
        ps += [P(f"gap{j}", 0, L), P(f"arm{j}", 0, 4)]
    ps.append(P("env", 0, 4))
    return ps


@guard
def sched_fn(a, tier):
    D, L = sched_cfg(tier)
    quick = tier == "quick"
    mk, pos = pick(a["mk"], 8), pick(a["pos"], 3)
    cps, wphase = pick(a["cps"], 2), pick(a["wphase"], 2)
    pphase = 1 if mk == 3 else pick(a["pphase"], 2)  # default-name remapping happens in start() only
    f0 = pick(a["f0"], 2)
    wdelay = 1 if quick else pick(a["wdelay"], 3)
    fillers = [f0, 1 - f0] if quick else [f0, pick(a["f1"], 2)]
    # slow: an application-level listener with a 1-slot queue that subscribed first and never reads; refused: see below.
    # one of {neither, slow listener, refused publication first, private-context factory first, second waiter through @inject}
    # injwait: the second waiter gets the resource as an injected parameter of an @inject coroutine function
    envk = pick(a["env"], 5)
    slow, refused, injwait = int(envk == 1), {2: 1, 3: 2}.get(envk, 0), int(envk == 4)
    tape = DeviationTape([(a[f"gap{j}"], a[f"arm{j}"]) for j in range(D)], L)
    env = Env()
    vals = {"match": {} if mk == 4 else object()}
    steps = publisher_steps(env, vals, mk, pos, fillers, cps)
    if refused == 2:
        # first, in a private context of its own, the publisher registers a PRIVATE factory for the very key the waiters want - and leaves that context
        def private_ctx(env_, node):
            async def go():
                async with Context() as private:
                    private.add_resource_factory(lambda: vals.setdefault("private", object()), "special", types=[T])
                env.ev("private_context_left")

            return go()

        steps = [("call", private_ctx)] + ([("cp",)] if cps else []) + steps
    elif refused:
        # first a publication that is REFUSED: (T,'special') together with a type whose 'special' is already taken
        steps = [("pub", "taken", object(), "special", [RT[5]]), ("pubfail", "rejected", object(), "special", [T, RT[5]])] + ([("cp",)] if cps else []) + steps
    probe = {}

    def opt_probe(env_, node):
        # optional=True never waits: it must return without consuming a scheduler step
        async def go():
            from asphalt.core import get_resource

            k = symsched.kernel()
            before = k.steps
            published = env.has("pub", 2, "MATCH")
            v = await get_resource(RT[4], "never", optional=True)
            probe["opt"] = (v, k.steps - before, published)

        return go()

    wait = [("cp",)] * wdelay + [("wait", "w", T, "special")]
    w1 = NodeSpec(1, 0, prepare=wait if wphase == 0 else [("call", opt_probe)], start=wait if wphase == 1 else [], alias="w1")
    wait2 = [("cp",)] * wdelay + [("injwait" if injwait else "wait", "w", T, "special")]
    w2 = NodeSpec(3, 0, prepare=[] if wphase == 0 else list(wait2), start=list(wait2) if wphase == 0 else [], alias="w2")
    pub = NodeSpec(2, 0, prepare=steps if pphase == 0 else [], start=steps if pphase == 1 else [], alias="p/special")
    noise = NodeSpec(4, 0, prepare=None, start=[("pub", "noise", object(), "default", [T])], alias="q/other")
    # a plain-aliased sibling AFTER the slashed ones: its default-named resource must stay (T,'default')
    plain = NodeSpec(5, 0, prepare=None, start=[("pub", "plain", object(), "default", [T])], alias="plain")
    # the root first gives up an optional dependency (a wait that is cancelled): nothing of it may stay behind
    root = NodeSpec(0, -1, prepare=[("giveup", RT[4], "never")], start=[])
    nodes = [root, w1, pub, w2, noise, plain]
    classes = build_classes(env, nodes)
    out = {}

    async def main():
        import warnings
        from contextlib import AsyncExitStack

        async with Context() as ctx, AsyncExitStack() as stack:
            if slow:
                stack.enter_context(warnings.catch_warnings())
                warnings.simplefilter("ignore")
                await stack.enter_async_context(ctx.resource_added.stream_events(max_queue_size=1))
            await start_component(classes[0], {}, timeout=1000)
            out["plain_names"] = sorted(n for n, v in ctx.get_resources(T).items() if v is plain.start[0][2])
            k = symsched.kernel()
            before = k.steps
            try:
                await ctx.get_resource(RT[4], "never")
                out["outside"] = "returned"
            except ResourceNotFound:
                out["outside"] = "ResourceNotFound"
            out["outside_steps"] = k.steps - before
            out["final"] = await ctx.get_resource(T, "special")

    _, exc, k = run(main, chooser=tape)
    summary = {"match": MATCH_KINDS[mk], "match_position": pos, "fillers": [FILLERS[f] for f in fillers], "checkpoints_between": bool(cps),
               "waiters_in": ["prepare", "start"][wphase], "waiter_checkpoints_before_request": wdelay,
               "publisher_in": ["prepare", "start"][pphase], "slow_first_subscriber": bool(slow), "schedule": tape.taken,
               "second_waiter_uses": "@inject" if injwait else "get_resource()", "publisher_first": ["-", "attempts a publication that is refused", "registers a private factory for the same key in a context of its own and leaves it"][refused]}
    if refused == 1 and not env.has("refused", 2, "rejected") and env.has("pub", 2, "rejected"):
        return FAIL("conflicting-publication-accepted", env.log, summary)
    if exc is not None:
        lost = isinstance(exc, (TimeoutError, symsched.Deadlock))
        return FAIL(f"lost-wakeup:{MATCH_KINDS[mk]}:pos={pos}" if lost else f"startup-failed:{type(exc).__name__}",
                    f"{exc!r} log={env.log}", summary)
    for waiter in (1, 3):
        if not env.has("wait_end", waiter, "w"):
            return FAIL("waiter-never-returned", env.log, summary)
        if env.index("wait_end", waiter, "w") < env.index("pub", 2, "MATCH"):
            return FAIL("false-wakeup:returned-before-matching-publication", env.log, summary)
        got = env.values[(waiter, "w")]
        if got is not vals["match"]:
            return FAIL(f"wrong-object:{MATCH_KINDS[mk]}", f"waiter {waiter} got {got!r}", summary)
    if mk in (1, 5, 6) and env.count("factory_called") != 1:
        return FAIL("factory-product-not-shared", env.count("factory_called"), summary)
    if out["final"] is not vals["match"]:
        return FAIL("final-lookup-differs", "", summary)
    if out["plain_names"] != ["default"]:
        return FAIL("plain-alias-sibling-published-under-a-foreign-name", out["plain_names"], summary)
    if "opt" in probe:
        v, steps_used, _ = probe["opt"]
        if v is not None or steps_used != 0:
            return FAIL("optional-waited-or-returned-something", probe["opt"], summary)
    if out["outside"] != "ResourceNotFound" or out["outside_steps"] != 0:
        return FAIL("outside-startup-waited", out, summary)
    return OK(summary, True)


SCHED = Harness(
    prop="C06",
    name="W-sched",
    fn=sched_fn,
    params=sched_params,
    cube=lambda tier: 4,
    title="two waiters, a publisher issuing matching and non-matching publications, a noise publisher; all schedule prefixes",
    bound_text=lambda tier: "waiters for (T,'special') in prepare or start after " + ("1 checkpoint" if tier == "quick" else "0-2 checkpoints") + "; publisher (alias 'p/special') issues 3 publications, "
    "one of them matching (" + "; ".join(MATCH_KINDS) + ") at position 0-2, the others non-matching (" + "; ".join(FILLERS)
    + "), with/without checkpoints between, optionally preceded by a publication of (T,'special') together with an already taken type that is refused with ResourceConflict, or by a private factory for (T,'special') registered in a short-lived context of the publisher's own; a second publisher with alias 'q/other' publishes T under its remapped default name and a third, plain-aliased one under 'default'; optionally an application-level listener with a 1-slot queue that subscribed first and never reads; "
    + ("FIFO schedule with ONE deviation: at any one of the first 10 decision points any other runnable task may be picked"
       if tier == "quick" else "FIFO schedule with ONE deviation anywhere in the first 16 decision points, any other runnable task, and all parameter combinations"),
    oracle="startup completes (no TimeoutError/deadlock = no lost wake-up); each waiter returns only after the matching publication and with "
    "exactly the published object / the factory's product (factory called once); optional=True and get_resource outside startup return "
    "None / raise ResourceNotFound without consuming a single scheduler step",
    outside=">2 waiters, >2 publishers, longer publication sequences, schedules deviating after the prefix",
    stubs=STUBS_COMMON,
)


# ------------------------------------------------------------------------------ W-burst
def burst_params(tier):
    return [P("b", 0, 60 if tier == "quick" else 120), P("blocked", 0, 1), P("kind", 0, 1), P("phase", 0, 1)]


@guard
def burst_fn(a, tier):
    bmax = 60 if tier == "quick" else 120
    b = pick(a["b"], bmax + 1)
    blocked, kind, phase = pick(a["blocked"], 2), pick(a["kind"], 2), pick(a["phase"], 2)
    env = Env()
    val = object()
    burst = []
    for i in range(b):
        if kind == 0:
            burst.append(("pub", f"n{i}", object(), f"other{i}", [T]))
        else:
            burst.append(("pub", f"n{i}", object(), f"x{i}", [OTHER]))
    pub_steps = ([("cp",), ("cp",)] if blocked else []) + burst + [("pub", "MATCH", val, "default", [T])]
    wait = ([] if blocked else [("cp",), ("cp",)]) + [("wait", "w", T, "default")]
    waiter = NodeSpec(1, 0, prepare=wait if phase == 0 else [], start=wait if phase == 1 else [])
    pub = NodeSpec(2, 0, prepare=pub_steps, start=[])
    nodes = [NodeSpec(0, -1, prepare=[], start=[]), waiter, pub]
    classes = build_classes(env, nodes)

    async def main():
        import warnings

        with warnings.catch_warnings():
            warnings.simplefilter("ignore")
            async with Context():
                await start_component(classes[0], {}, timeout=1000)

    _, exc, k = run(main, max_steps=200000)
    summary = {"burst_of_non_matching_publications": b, "waiter_already_blocked": bool(blocked),
               "burst_kind": ["same type, other names", "other type"][kind], "waiter_in": ["prepare", "start"][phase]}
    if exc is not None:
        if isinstance(exc, (TimeoutError, symsched.Deadlock)):
            return FAIL(f"lost-wakeup:burst>={min(b, 50)}:blocked={blocked}", f"b={b}: {exc!r}", summary)
        return FAIL(f"startup-failed:{type(exc).__name__}", repr(exc), summary)
    if env.values.get((1, "w")) is not val:
        return FAIL("wrong-object", "", summary)
    return OK(summary, nontrivial=b > 0)


BURST = Harness(
    prop="C06",
    name="W-burst",
    fn=burst_fn,
    params=burst_params,
    cube=lambda tier: 1,
    title="burst of b non-matching publications without a checkpoint before the matching one",
    bound_text=lambda tier: f"b in 0..{60 if tier == 'quick' else 120} x waiter already blocked / not yet x burst kind x waiter phase; FIFO schedule",
    oracle="startup completes; waiter gets the published object",
    outside=f"bursts above {60}; other schedules (W-sched)",
    stubs=STUBS_COMMON,
)


# ------------------------------------------------------------------------------ W-abandon
class _Boom(Exception):
    pass


def abandon_params(tier):
    L = 10 if tier == "quick" else 16
    return [P("mode", 0, 1), P("fsteps", 0, 1), P("bdelay", 0, 2), P("pdelay", 0, 2), P("gap0", 0, L), P("arm0", 0, 3)]


@guard
def abandon_fn(a, tier):
    L = 10 if tier == "quick" else 16
    mode, fsteps = pick(a["mode"], 2), pick(a["fsteps"], 2)
    bdelay, pdelay = pick(a["bdelay"], 3), pick(a["pdelay"], 3)
    tape = DeviationTape([(a["gap0"], a["arm0"])], L)
    env = Env()
    calls = []

    async def factory():
        me = anyio.get_current_task().id
        calls.append("A" if me == env.misc.get("A_task") else "other")
        mine = object()
        env.misc.setdefault("products", []).append(mine)
        if calls[-1] == "A" and calls.count("A") == 1:
            # the generation requested by component A is abandoned: it raises / A gives up (its timeout fires) while the factory is awaited
            for _ in range(fsteps):
                await anyio.sleep(0)
            if mode == 0:
                raise _Boom("generation fails")
            await anyio.sleep(100)
        await anyio.sleep(0)
        return mine

    def remember_task(env_, node):
        env.misc["A_task"] = anyio.get_current_task().id

    a_steps = [("call", remember_task), ("tryget", "a", T, "special") if mode == 0 else ("giveup", T, "special", 5)]
    A = NodeSpec(1, 0, prepare=a_steps, start=[], alias="A")
    B = NodeSpec(2, 0, prepare=[("cp",)] * bdelay + [("wait", "w", T, "special")], start=[], alias="B")
    Pn = NodeSpec(3, 0, prepare=[("cp",)] * pdelay + [("fac", "MATCH", factory, "special", [T])], start=[], alias="P")
    nodes = [NodeSpec(0, -1, prepare=[], start=[]), A, B, Pn]
    classes = build_classes(env, nodes)
    out = {}

    async def main():
        async with Context() as ctx:
            await start_component(classes[0], {}, timeout=1000)
            out["final"] = await ctx.get_resource(T, "special")

    _, exc, k = run(main, chooser=tape)
    summary = {"first_generation": ["raises (the requesting component handles it)", "abandoned: the requesting component's own timeout fires while the factory is awaited"][mode],
               "factory_checkpoints_before_failing": fsteps, "second_consumer_delay": bdelay, "publisher_delay": pdelay, "schedule": tape.taken, "factory_calls": list(calls)}
    abandoned = bool(calls) and "A" in calls
    if exc is not None:
        lost = isinstance(exc, (TimeoutError, symsched.Deadlock))
        return FAIL(f"abandon:lost-wakeup:mode={mode}" if lost else f"abandon:startup-failed:{type(exc).__name__}", f"{exc!r} log={env.log}", summary)
    got = env.values.get((2, "w"))
    products = env.misc.get("products", [])
    if not env.has("wait_end", 2, "w") or not any(got is p_ for p_ in products):
        return FAIL("abandon:second-consumer-did-not-get-the-factory-product", repr(got), summary)
    if out["final"] is not got:
        return FAIL("abandon:final-lookup-differs", "", summary)
    if env.index("wait_end", 2, "w") < env.index("pub", 3, "MATCH"):
        return FAIL("abandon:false-wakeup", env.log, summary)
    return OK(summary, nontrivial=abandoned)


ABANDON = Harness(
    prop="C06",
    name="W-abandon",
    fn=abandon_fn,
    params=abandon_params,
    cube=lambda tier: 4,
    title="a second component waiting behind a generation that is abandoned (factory raises / the first requester gives up) is still served",
    bound_text=lambda tier: "async factory for (T,'special') published after 0-2 checkpoints; component A requests it and its generation raises after 0-1 "
    "checkpoints (A handles the error) or is abandoned by A's own 5-tick timeout; component B requests the same resource after 0-2 checkpoints; FIFO schedule "
    f"with one deviation anywhere in the first {10 if tier == 'quick' else 16} decisions",
    oracle="startup completes (no TimeoutError / deadlock); B returns a product of the factory, after the publication; later lookups return the same object",
    outside="more than two consumers; several abandoned generations",
    stubs=STUBS_COMMON,
)


# ------------------------------------------------------------------------------ W-nested
def nested_params(tier):
    return [P("wphase", 0, 1), P("hostpub", 0, 1), P("inner_phase", 0, 1), P("gap0", 0, 8), P("arm0", 0, 3)]


@guard
def nested_fn(a, tier):
    """A component deployed as 'host/outbound' brings up a component tree of its own from inside start(): what THAT tree's (un-aliased)
    component publishes under the default name is (T,'default') - it releases the waiter for that key and not the one for (T,'outbound')."""
    wphase, hostpub, inner_phase = pick(a["wphase"], 2), pick(a["hostpub"], 2), pick(a["inner_phase"], 2)
    tape = DeviationTape([(a["gap0"], a["arm0"])], 8)
    env = Env()
    inner_val, host_val = object(), object()

    inner_steps = [("cp",), ("pub", "INNER", inner_val, "default", [T])]
    inner_env_nodes = [NodeSpec(0, -1, prepare=inner_steps if inner_phase == 0 else [], start=inner_steps if inner_phase == 1 else [])]
    inner_env = Env()
    inner_classes = build_classes(inner_env, inner_env_nodes)
    InnerRoot = inner_classes[0]

    def nested_start(env_, node):
        async def go():
            await start_component(InnerRoot, {}, timeout=500)
            env.ev("nested_started")

        return go()

    host_start = [("call", nested_start)] + ([("cp",), ("pub", "HOST", host_val, "default", [T])] if hostpub else [])
    wait = [("wait", "w", T, "default")]
    w = NodeSpec(1, 0, prepare=wait if wphase == 0 else [], start=wait if wphase == 1 else [], alias="waiter")
    host = NodeSpec(2, 0, prepare=[("cp",)], start=host_start, alias="host/outbound")
    other = NodeSpec(3, 0, prepare=[], start=[("opt", "o", T, "outbound")], alias="peek") if not hostpub else NodeSpec(
        3, 0, prepare=[], start=[("wait", "o", T, "outbound")], alias="wait_outbound")
    nodes = [NodeSpec(0, -1, prepare=[], start=[]), w, host, other]
    classes = build_classes(env, nodes)
    out = {}

    async def main():
        async with Context() as ctx:
            await start_component(classes[0], {}, timeout=1000)
            out["names"] = {n: v for n, v in ctx.get_resources(T).items()}

    _, exc, k = run(main, chooser=tape)
    summary = {"waiter_in": ["prepare", "start"][wphase], "host_also_publishes_its_own_default_named_resource": bool(hostpub),
               "nested_component_publishes_in": ["prepare", "start"][inner_phase], "schedule": tape.taken}
    if exc is not None:
        lost = isinstance(exc, (TimeoutError, symsched.Deadlock))
        return FAIL("nested:lost-wakeup" if lost else f"nested:startup-failed:{type(exc).__name__}", f"{exc!r} log={env.log}", summary)
    if env.values.get((1, "w")) is not inner_val:
        return FAIL("nested:waiter-for-the-default-name-got-the-wrong-object", repr(env.values.get((1, "w"))), summary)
    exp_names = {"default": inner_val}
    if hostpub:
        exp_names["outbound"] = host_val
        if env.values.get((3, "o")) is not host_val:
            return FAIL("nested:waiter-for-the-alias-name-released-with-a-foreign-object", repr(env.values.get((3, "o"))), summary)
    if out["names"] != exp_names:
        return FAIL("nested:published-names", f"{sorted(out['names'])} expected {sorted(exp_names)}", summary)
    return OK(summary, True)


NESTED = Harness(
    prop="C06",
    name="W-nested",
    fn=nested_fn,
    params=nested_params,
    cube=lambda tier: 3,
    title="a component tree started from inside an aliased component's start(): its publications keep their own names",
    bound_text=lambda tier: "host 'host/outbound' starts a one-component tree from start() whose component publishes (T, default name) in prepare/start; a sibling waits "
    "for (T,'default') in prepare/start; optionally the host publishes its own default-named T afterwards and another sibling waits for (T,'outbound'); FIFO with one deviation in 8 decisions",
    oracle="startup completes; the waiter for 'default' gets the nested component's object, the waiter for 'outbound' only the host's; the context holds exactly those names",
    outside="deeper nesting",
    stubs=STUBS_COMMON,
)


# ------------------------------------------------------------------------------ W-double
def double_params(tier):
    return [P("da", 0, 2), P("db", 0, 2), P("phase", 0, 1), P("third", 0, 1), P("gap0", 0, 8), P("arm0", 0, 3)]


@guard
def double_fn(a, tier):
    """ONE component waits for two (or three) resources at the same time, from tasks of its own task group."""
    da, db, phase, third = pick(a["da"], 3), pick(a["db"], 3), pick(a["phase"], 2), pick(a["third"], 2)
    tape = DeviationTape([(a["gap0"], a["arm0"])], 8)
    env = Env()
    va, vb, vc = object(), object(), object()
    got = {}

    def concurrent_waits(env_, node):
        async def go():
            from asphalt.core import get_resource

            async def need(tag, t, name):
                got[tag] = await get_resource(t, name)

            async with anyio.create_task_group() as tg:
                tg.start_soon(need, "a", RT[0], "a")
                tg.start_soon(need, "b", RT[1], "b")
                if third:
                    tg.start_soon(need, "c", RT[2], "c")

        return go()

    waiter = NodeSpec(1, 0, prepare=[("call", concurrent_waits)] if phase == 0 else [], start=[("call", concurrent_waits)] if phase == 1 else [], alias="waiter")
    pa = NodeSpec(2, 0, prepare=[("cp",)] * (1 + da) + [("pub", "A", va, "a", [RT[0]])], start=[], alias="pa")
    pb = NodeSpec(3, 0, prepare=[("cp",)] * (1 + db) + [("pub", "B", vb, "b", [RT[1]]), ("cp",), ("pub", "C", vc, "c", [RT[2]])], start=[], alias="pb")
    classes = build_classes(env, [NodeSpec(0, -1, prepare=[], start=[]), waiter, pa, pb])

    async def main():
        async with Context():
            await start_component(classes[0], {}, timeout=1000)

    _, exc, k = run(main, chooser=tape)
    summary = {"concurrent_waits_in": ["prepare", "start"][phase], "number_of_waits": 2 + third, "publisher_delays": [1 + da, 1 + db], "schedule": tape.taken}
    if exc is not None:
        lost = isinstance(exc, (TimeoutError, symsched.Deadlock))
        return FAIL("double:lost-wakeup" if lost else f"double:startup-failed:{type(exc).__name__}", f"{exc!r} log={env.log}", summary)
    if got.get("a") is not va or got.get("b") is not vb or (third and got.get("c") is not vc):
        return FAIL("double:wrong-object", repr(got), summary)
    return OK(summary, True)


DOUBLE = Harness(
    prop="C06",
    name="W-double",
    fn=double_fn,
    params=double_params,
    cube=lambda tier: 3,
    title="one component waiting for several resources at once (tasks of its own task group)",
    bound_text=lambda tier: "a component starts 2-3 concurrent get_resource() calls in prepare()/start(); two siblings publish the resources after 1-3 checkpoints; FIFO with one deviation in 8 decisions",
    oracle="startup completes and every wait returns its own published object",
    outside="more than 3 concurrent waits",
    stubs=STUBS_COMMON,
)

HARNESSES = [SCHED, BURST, ABANDON, NESTED, DOUBLE]
