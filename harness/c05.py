"""C05 -- Component trees start in order: construct all, prepare, children, then start."""
from __future__ import annotations

from itertools import permutations

import anyio

from .common import FAIL, OK, STUBS_COMMON, CbBase, Harness, P, Tape, find_group, flatten, guard, pick, run
import symsched
from .ctree import RT, Env, NodeSpec, build_classes, descendants, shapes

from asphalt.core import Context, start_component  # noqa: E402

SHAPES_Q = shapes(2) + shapes(3) + shapes(4)  # 1 + 2 + 6
SHAPES_T = SHAPES_Q + shapes(5)  # + 24
VARIANTS = ["prepare[cp]+start[cp]", "start[cp] only", "prepare only (no checkpoint)"]


def order_params(tier):
    shp = SHAPES_Q if tier == "quick" else SHAPES_T
    n = 4 if tier == "quick" else 5
    S = 3 if tier == "quick" else 4
    return [P("shape", 0, len(shp) - 1), P("inherit", 0, 1)] + [P(f"v{i}", 0, 2) for i in range(n)] + [
        P(f"s{i}", 0, 5) for i in range(S)
    ]


EXTRAS = ["-", "the root also registers a teardown callback that raises a BaseException",
          "the root also registers an async teardown callback during which the scope around the caller's context is cancelled",
          "the root also starts a service task with teardown_action=None that ends once a later-registered callback tells it to",
          "the root also registers a teardown callback that returns a non-coroutine awaitable",
          "every component also registers a teardown through ONE shared @context_teardown function (as instances of one component class do)",
          "the root also registers a teardown callback that registers a further callback while the teardown runs"]


def _order(a, tier, with_extra=False):
    shp = SHAPES_Q if tier == "quick" else SHAPES_T
    S = 3 if tier == "quick" else 4
    if with_extra:
        shp = SHAPES_X if tier == "quick" else SHAPES_Q
        S = 2 if tier == "quick" else 3
    parents = shp[pick(a["shape"], len(shp))]
    n = len(parents)
    if n == 5:
        S = 2  # thorough: five components with a shorter arbitrary prefix
    inherit = bool(pick(a["inherit"], 2)) if not with_extra else False
    extra = 1 + pick(a["extra"], 6) if with_extra else 0
    variants = [pick(a[f"v{i}"], 3) for i in range(n)]
    tape = Tape([a[f"s{i}"] for i in range(S)])
    env = Env()
    nodes = []
    values = {}
    for i in range(n):
        v = variants[i]
        values[i] = object()
        pub = ("pub", f"res{i}", values[i], "default", [RT[i]])
        prep = start = None
        if v == 0:
            prep = [pub, ("cp",), ("td", f"prep{i}")]
            # in start(): a context of the component's own must see what was published during this start-up
            start = [("cp",), ("subctx", "own", RT[i], "default"), ("opt", "optsee", RT[i], "default"), ("optnowait", "optsee2", RT[i], "default"), ("td", f"start{i}")]
        elif v == 1:
            start = [pub, ("cp",), ("td", f"start{i}")]
        else:
            prep = [pub, ("td", f"prep{i}")]
        if i == 0 and extra in (1, 2, 3, 4):
            (start if start is not None else prep).append([None, ("tdbase", "X", CbBase), ("tdcancel", "X"), ("svcnone", "X"), ("tdaw", "X")][extra])
        if extra == 5:
            (start if start is not None else prep).append(("ctxtd", f"shared{i}"))
        if extra == 6 and i == 0:
            (start if start is not None else prep).append(("tdnested", "N"))
        nodes.append(NodeSpec(i, parents[i], prep, start, inherit=inherit))
    classes = build_classes(env, nodes)
    out = {}

    async def main():
        with anyio.CancelScope() as scope:
            env.misc["scope"] = scope
            async with Context() as ctx:
                out["ctx"] = ctx
                out["ret"] = await start_component(classes[0], {}, timeout=1000)
                env.ev("returned")
                out["visible"] = {i: ctx.get_resources(RT[i]) for i in range(n)}
                env.ev("leaving")
        env.ev("left")

    _, exc, k = run(main, chooser=tape)
    summary = {"parents": parents, "variants": [VARIANTS[v] for v in variants], "methods_inherited": inherit, "schedule": tape.taken, "extra": EXTRAS[extra]}
    if extra == 1 and exc is not None and env.has("returned"):
        if not find_group(exc, [env.misc.get(("exc", "X"))]):
            return FAIL("order:teardown-outcome-with-a-BaseException-raising-callback", repr(exc), summary)
        exc = None
    if extra == 2 and exc is not None and env.has("returned") and all(isinstance(x, symsched.Cancelled) for x in flatten(exc)):
        exc = None
    if exc is not None:
        return FAIL(f"order:start-failed:{type(exc).__name__}", repr(exc), summary)
    log = env.log
    # 1. whole hierarchy instantiated before any prepare/start; once each
    inits = [e for e in log if e[0] == "init"]
    if sorted(e[1] for e in inits) != list(range(n)):
        return FAIL("order:constructors-not-exactly-once", inits, summary)
    first_method = min((i for i, e in enumerate(log) if e[0] in ("prepare_begin", "start_begin")), default=len(log))
    if any(i > first_method for i, e in enumerate(log) if e[0] == "init"):
        return FAIL("order:constructor-after-a-method-ran", log, summary)
    for node in nodes:
        i = node.idx
        for meth, steps in (("prepare", node.prepare), ("start", node.start)):
            cnt_b, cnt_e = env.count(f"{meth}_begin", i), env.count(f"{meth}_end", i)
            want = 1 if steps is not None else 0
            if cnt_b != want or cnt_e != want:
                return FAIL(f"order:{meth}-ran-{cnt_b}-times-instead-of-{want}:inherit={inherit}", log, summary)
    for node in nodes:
        i = node.idx
        kids = [c.idx for c in nodes if c.parent == i]
        for c in kids:
            first_c = min(j for j, e in enumerate(log) if e[0] in ("prepare_begin", "start_begin") and e[1] == c)
            if node.prepare is not None and env.index("prepare_end", i) > first_c:
                return FAIL("order:child-began-before-parent-prepare-ended", log, summary)
        if node.start is not None:
            sb = env.index("start_begin", i)
            for d in descendants(nodes, i):
                last_d = max(j for j, e in enumerate(log) if e[0] in ("prepare_end", "start_end") and e[1] == d)
                if last_d > sb:
                    return FAIL("order:start-before-descendant-finished", log, summary)
    last_root = max(j for j, e in enumerate(log) if e[0] in ("prepare_end", "start_end") and e[1] == 0)
    if env.index("returned") < last_root or out["ret"] is not env.instances[0]:
        return FAIL("order:returned-early-or-wrong-instance", log, summary)
    for (i, label), got in env.values.items():
        if label == "own" and got is not values[i]:
            return FAIL("order:context-opened-inside-a-component-does-not-see-the-start-up-publications", f"node {i}: {got!r}", summary)
        if label in ("optsee", "optsee2") and got is not values[i]:
            return FAIL(f"order:optional-lookup-inside-a-component-does-not-see-what-was-published-during-this-start-up:{label}", f"node {i}: {got!r}", summary)
        if label == "own:parent" and got is not out["ctx"]:
            return FAIL("order:context-opened-inside-a-component-has-the-wrong-parent", f"node {i}: {got!r}", summary)
    # 3. everything belongs to the caller's context
    for i in range(n):
        if out["visible"][i] != {"default": values[i]}:
            return FAIL("order:resource-not-visible-in-callers-context", f"node {i}: {out['visible'][i]}", summary)
    reg = [e[1] for e in log if e[0] == "td_registered"]
    ran = [e[1] for e in log if e[0] == "td"]
    if extra == 6:
        # the callback registered during the teardown runs next (stack semantics)
        if "late-N" not in ran or ran.index("late-N") != ran.index("N") + 1:
            return FAIL("order:callback-registered-during-teardown-not-run-next", f"ran={ran}", summary)
        ran = [x for x in ran if x != "late-N"]
    if ran != list(reversed(reg)) or any(log.index(("td", x)) < env.index("leaving") for x in ran):
        return FAIL(f"order:teardown-ownership-or-order:extra={extra}", f"registered={reg} ran={ran}", summary)
    if extra == 3:
        # the context is not left, and callbacks registered before the service task do not run, until the task has ended
        end = env.index("svc_end", "X") if env.has("svc_end", "X") else None
        after = ran[ran.index("X:stop") + 1:]
        nxt = log.index(("td", after[0])) if after else env.index("left")
        if end is None or not (env.index("td", "X:stop") < end < nxt) or (env.has("left") and end > env.index("left")):
            return FAIL("order:service-task-with-teardown_action-None-not-awaited-at-teardown", f"log={log}", summary)
    if k.live_tasks():
        return FAIL("order:task-alive-after-exit", [t.name for t in k.live_tasks()], summary)
    return OK(summary, nontrivial=n >= 3)


order_fn = guard(lambda a, tier: _order(a, tier))
SHAPES_X = shapes(2) + shapes(3)


def exit_params(tier):
    shp = SHAPES_X if tier == "quick" else SHAPES_Q
    n = 3 if tier == "quick" else 4
    return [P("shape", 0, len(shp) - 1), P("extra", 0, 5)] + [P(f"v{i}", 0, 2) for i in range(n)] + [P(f"s{i}", 0, 5) for i in range(2 if tier == "quick" else 3)]


EXIT = Harness(
    prop="C05",
    name="O-exit",
    fn=guard(lambda a, tier: _order(a, tier, True)),
    params=exit_params,
    cube=lambda tier: 3,
    title="everything the components registered is torn down when the caller's context is left - also when that teardown meets a fault",
    bound_text=lambda tier: f"all rooted trees with 2..{3 if tier == 'quick' else 4} components x per component {VARIANTS} x the root additionally registers "
    "{a teardown callback raising a BaseException, an async teardown callback during which the scope around the caller's context is cancelled, a service task "
    f"with teardown_action=None that ends once a later callback tells it to, a teardown callback returning a non-coroutine awaitable}} / every component registers through one shared @context_teardown function; first {2 if tier == 'quick' else 3} scheduling decisions arbitrary",
    oracle="O-order's oracle, and: every teardown callback registered by any component still runs, LIFO, after the fault; the exit raises the group holding the "
    "callback's BaseException / only cancellation; the service task has ended before callbacks registered before it run and before the block is left",
    outside="several faults in one teardown",
    stubs=STUBS_COMMON,
)

ORDER = Harness(
    prop="C05",
    name="O-order",
    fn=order_fn,
    params=order_params,
    cube=lambda tier: 4 if tier == "quick" else 5,
    title="phase ordering over all tree shapes, method presence patterns and schedule prefixes",
    bound_text=lambda tier: f"all rooted trees with 2..{4 if tier == 'quick' else 5} components ({len(SHAPES_Q) if tier == 'quick' else len(SHAPES_T)} shapes) x per component "
    f"{VARIANTS} x methods defined directly / inherited from an intermediate base class; first {3 if tier == 'quick' else 4} scheduling decisions arbitrary (any of up to 6 runnable tasks; 2 decisions for the 24 five-component shapes)",
    oracle="all constructors (once each) before any prepare/start; each defined method exactly once; prepare_end(parent) before any activity of a child; "
    "start_begin(x) after the last activity of every descendant; start_component returns the root instance after its start(); every published "
    "resource visible in the caller's context; all teardown callbacks run, LIFO, only when the caller's context is left; no task left",
    outside="depth/fan-out beyond 5 components; components blocking forever",
    stubs=STUBS_COMMON,
)

# ------------------------------------------------------------------------------ W-wait
PERMS = list(permutations(range(3)))


def wait_params(tier):
    S = 3 if tier == "quick" else 4
    return [P("perm", 0, 5), P("e10", 0, 1), P("e20", 0, 1), P("e21", 0, 1), P("wp", 0, 1), P("pp", 0, 1), P("cpb", 0, 1), P("variant", 0, 3)] + [
        P(f"s{i}", 0, 5) for i in range(S)
    ]


@guard
def wait_fn(a, tier):
    S = 3 if tier == "quick" else 4
    perm = PERMS[pick(a["perm"], 6)]
    edges = []  # (waiter rank, publisher rank)
    if pick(a["e10"], 2):
        edges.append((1, 0))
    if pick(a["e20"], 2):
        edges.append((2, 0))
    if pick(a["e21"], 2):
        edges.append((2, 1))
    wp, pp, cpb = pick(a["wp"], 2), pick(a["pp"], 2), pick(a["cpb"], 2)
    # ownctx: every waiting sibling first opens and leaves a context of its own; pubkind 1: siblings provide their resource as a FACTORY
    variant = pick(a["variant"], 4)  # 3: the waiting siblings get the resource as an injected parameter of an @inject coroutine function
    ownctx, pubkind = int(variant == 1), int(variant == 2)
    tape = Tape([a[f"s{i}"] for i in range(S)])
    env = Env()
    vals = {i: object() for i in range(4)}
    # node 0 root, nodes 1..3 siblings; rank r -> node perm[r]+1
    node_of = {r: perm[r] + 1 for r in range(3)}
    prep = {i: [] for i in range(4)}
    start = {i: [] for i in range(4)}
    # the root first gives up waiting for an optional dependency nobody provides: the cancelled wait must leave nothing behind
    prep[0] = [("giveup", RT[4], "never"), ("cp",), ("pub", "P", vals[0], "default", [RT[0]])]
    for r in range(3):
        nd = node_of[r]
        waits = [("injwait" if variant == 3 else "wait", f"w{nd}<-{node_of[p]}", RT[node_of[p]], "default") for (w, p) in edges if w == r]
        if waits and ownctx:
            waits.insert(0, ("subctx", "own", RT[0], "default"))
        (prep if wp == 0 else start)[nd] += waits
        if pubkind:
            pub_steps = ([("cp",)] if cpb else []) + [("fac", f"res{nd}", (lambda v=vals[nd]: v), "default", [RT[nd]])]
        else:
            pub_steps = ([("cp",)] if cpb else []) + [("pub", f"res{nd}", vals[nd], "default", [RT[nd]])]
        (prep if pp == 0 else start)[nd] += pub_steps
    # documented vertical dependencies, always present: first-ranked sibling needs the parent's
    # prepare() resource; the parent's start() needs the last-ranked sibling's resource
    prep[node_of[0]].insert(0, ("wait", "parent-prepare", RT[0], "default"))
    start[0] = [("wait", "child", RT[node_of[2]], "default")]
    nodes = [NodeSpec(0, -1, prep[0], start[0])] + [NodeSpec(i, 0, prep[i], start[i]) for i in (1, 2, 3)]
    classes = build_classes(env, nodes)

    async def main():
        async with Context():
            await start_component(classes[0], {}, timeout=1000)

    _, exc, k = run(main, chooser=tape)
    summary = {"sibling_order": [node_of[r] for r in range(3)], "wait_edges": [f"n{node_of[w]} waits for n{node_of[p]}" for w, p in edges],
               "waits_in": "prepare" if wp == 0 else "start", "publishes_in": "prepare" if pp == 0 else "start",
               "checkpoint_before_publish": bool(cpb), "schedule": tape.taken,
               "waiters_first_enter_and_leave_a_context_of_their_own": bool(ownctx), "siblings_publish": ["a resource", "a resource factory"][pubkind],
               "waits_made_through": "an @inject-decorated coroutine function" if variant == 3 else "get_resource()"}
    if exc is not None:
        return FAIL(f"wait:acyclic-pattern-did-not-complete:{type(exc).__name__}", f"{exc!r} log={env.log}", summary)
    for key in [k_ for k_ in env.values if k_[1].startswith("own")]:
        del env.values[key]
    for (nd, label), got in env.values.items():
        if label == "parent-prepare":
            exp = vals[0]
        elif label == "child":
            exp = vals[node_of[2]]
        else:
            exp = vals[int(label.split("<-")[1])]
        if got is not exp:
            return FAIL("wait:wrong-object", f"{label}: {got!r}", summary)
    if len(env.values) != len(edges) + 2:
        return FAIL("wait:missing-wait", env.log, summary)
    return OK(summary, nontrivial=bool(edges))


WAIT = Harness(
    prop="C05",
    name="W-wait",
    fn=wait_fn,
    params=wait_params,
    cube=lambda tier: 4,
    title="every acyclic pattern of three siblings waiting for each other's resources completes",
    bound_text=lambda tier: "root + 3 siblings; any total order of the siblings x any subset of the 3 'later waits for earlier' edges x waits in "
    "prepare/start x publication in prepare/start x checkpoint before publishing; plus child<-parent.prepare and parent.start<-child; "
    f"first {3 if tier == 'quick' else 4} scheduling decisions arbitrary (any of up to 6 runnable tasks)",
    oracle="start_component returns (no TimeoutError, no deadlock); every wait returns the published object",
    outside="more than 3 siblings, deeper wait chains across levels, cyclic waits (documented deadlock)",
    stubs=STUBS_COMMON,
)

HARNESSES = [ORDER, EXIT, WAIT]


# ------------------------------------------------------------------------------ I-config
from asphalt.core import Component  # noqa: E402


def cfg_params(tier):
    return [P("shared", 0, 1), P("nested", 0, 1), P("typed", 0, 1)]


@guard
def cfg_fn(a, tier):
    shared, nested, typed = pick(a["shared"], 2), pick(a["nested"], 2), pick(a["typed"], 2)
    log = []

    class Leaf(Component):
        def __init__(self, tag=None, **kw):
            log.append(("init", "leaf", tag))

        async def start(self):
            log.append(("start", "leaf"))

    class Mid(Component):
        def __init__(self, **kw):
            log.append(("init", "mid"))

    class Root(Component):
        def __init__(self, **kw):
            log.append(("init", "root"))

    one = {"type": Leaf, "tag": 1} if typed else {"tag": 1, "type": Leaf}
    other = one if shared else dict(one)
    children = {"c1": one, "c2": other}
    if nested:
        children = {"m": {"type": Mid, "components": children}}
    config = {"components": children}
    outs = []

    def start_once():
        log.clear()

        async def main():
            async with Context():
                await start_component(Root, config, timeout=100)

        _, exc, _k = run(main)
        return exc, list(log)

    e1, l1 = start_once()
    e2, l2 = start_once()
    summary = {"two_children_share_one_config_mapping": bool(shared), "children_nested_under_a_config_only_parent": bool(nested)}
    if e1 is not None:
        return FAIL(f"config:first-start-failed:{type(e1).__name__}:shared={shared}", repr(e1), summary)
    want = sum(1 for e in l1 if e == ("init", "leaf", 1))
    if want != 2 or l1.count(("start", "leaf")) != 2:
        return FAIL("config:hierarchy-not-fully-instantiated", l1, summary)
    if e2 is not None or l2 != l1:
        return FAIL(f"config:second-start-from-same-config-differs:{type(e2).__name__ if e2 else 'log'}", f"{e2!r} {l2}", summary)
    return OK(summary, True)


ICFG = Harness(
    prop="C05",
    name="I-config",
    fn=cfg_fn,
    params=cfg_params,
    cube=lambda tier: 0,
    title="config-only children, two of them given the very same mapping object; the same configuration started twice",
    bound_text=lambda tier: "shared / separate child mappings x directly under the root / under a config-only parent x key order",
    oracle="the whole hierarchy is instantiated and started on both starts (same log), no error",
    outside="-",
    stubs=STUBS_COMMON,
)
HARNESSES.append(ICFG)


# ------------------------------------------------------------------------------ W-factory
def wfac_params(tier):
    return [P("order", 0, 1), P("bdelay", 0, 2), P("aphase", 0, 1), P("bphase", 0, 1), P("giveup_at", 1, 3)]


@guard
def wfac_fn(a, tier):
    order, bdelay = pick(a["order"], 2), pick(a["bdelay"], 3)
    aphase, bphase = pick(a["aphase"], 2), pick(a["bphase"], 2)
    giveup_at = 1 + pick(_minus1(a["giveup_at"]), 3)
    env = Env()
    made = []

    async def factory():
        made.append(1)
        await anyio.sleep(5)
        return Val(f"product#{len(made)}")

    class Val:
        def __init__(self, label):
            self.label = label

    # A asks first and gives up after `giveup_at` ticks, while the factory (5 ticks) is still running for it;
    # B asks `bdelay` ticks after A and must still be served
    a_steps = [("giveup", RT[1], "made", giveup_at)]
    b_steps = [("sleep", bdelay)] * (1 if bdelay else 0) + [("wait", "b", RT[1], "made")]
    A = NodeSpec(1, 0, a_steps if aphase == 0 else [], a_steps if aphase == 1 else [], alias="a")
    B = NodeSpec(2, 0, b_steps if bphase == 0 else [], b_steps if bphase == 1 else [], alias="b")
    kids = [A, B] if order == 0 else [B, A]
    root = NodeSpec(0, -1, [("fac", "F", factory, "made", [RT[1]])], [])
    nodes = sorted([root] + kids, key=lambda n: n.idx)
    classes = build_classes(env, nodes)

    async def main():
        async with Context():
            await start_component(classes[0], {}, timeout=1000)

    _, exc, _k = run(main)
    summary = {"declared_first": "A" if order == 0 else "B", "B_asks_after_ticks": bdelay, "A_gives_up_after_ticks": giveup_at,
               "A_in": ["prepare", "start"][aphase], "B_in": ["prepare", "start"][bphase]}
    if exc is not None:
        return FAIL(f"wfactory:sibling-never-served-after-the-generating-sibling-gave-up:{type(exc).__name__}", f"{exc!r} log={env.log}", summary)
    got = env.values.get((2, "b"))
    if got is None or not hasattr(got, "label"):
        return FAIL("wfactory:wrong-object", repr(got), summary)
    return OK(summary, True)


def _minus1(v):
    from symkit.choose import is_concrete, resumed

    if is_concrete(v):
        return v - 1
    with resumed():
        return v - 1


WFAC = Harness(
    prop="C05",
    name="W-factory",
    fn=wfac_fn,
    params=wfac_params,
    cube=lambda tier: 0,
    title="a sibling that gives up while it is generating an async-factory resource must not block the sibling waiting behind it",
    bound_text=lambda tier: "parent publishes an async factory (5 ticks); child A requests it and gives up after 1-3 ticks; child B requests it 0-2 ticks after A; phases and declaration order vary",
    oracle="start_component completes and B gets a product of the factory",
    outside="-",
    stubs=STUBS_COMMON,
)
HARNESSES.append(WFAC)
