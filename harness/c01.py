"""C01 -- Context teardown runs every callback exactly once, LIFO, one at a time."""
from __future__ import annotations

import anyio

from .common import (
    FAIL,
    OK,
    STUBS_COMMON,
    BodyBase,
    BodyErr,
    CbBase,
    CbErr,
    Harness,
    P,
    Tape,
    find_group,
    flag,
    flatten,
    guard,
    pick,
    run,
)
from asphalt.core import Context, add_resource, add_teardown_callback, context_teardown, start_service_task  # noqa: E402

import symsched

class _RA:
    pass


class _RB:
    pass


KIND = ["sync", "async def+checkpoint", "sync returning an awaitable object (__await__)"]
RAISES = ["ok", "Exception", "BaseException", "re-raises the very exception object it was passed (else a fresh Exception)"]
ENDS = ["return", "Exception", "BaseException", "ExceptionGroup"]


def _outcome_ok(outcome, body_exc, raised, root):
    """Outcome table of the statement.  Returns None or a signature string."""
    if raised:
        if not find_group(outcome, raised):
            return "group"
        return None
    if body_exc is None:
        return None if outcome is None else "outcome:clean-exit-raised"
    if outcome is body_exc:
        return None
    if isinstance(body_exc, Exception) and not isinstance(body_exc, BaseExceptionGroup):
        return "outcome:plain-exception-not-itself"
    # BaseException / group endings: the statement only fixes "the block's own outcome";
    # a task group may legitimately wrap a non-Exception in a group
    if outcome is not None and flatten(outcome) == flatten(body_exc):
        return None
    return "outcome:lost-or-changed"


def _accepts_after_exit(ctx):
    """After the block has been left nothing may be registered any more: a callback accepted
    now could never be invoked (the teardown is over), contradicting 'invoked exactly once'."""
    try:
        ctx.add_teardown_callback(lambda: None)
    except RuntimeError:
        return False
    return True


# ---------------------------------------------------------------------------- H1
def h1_params(tier):
    n = 3
    ps = [P("n", 0, n), P("end", 0, 2 if tier == "quick" else 3), P("nested", 0, 1), P("outer", 0, 1)]
    kinds = 1 if tier == "quick" else 2
    for i in range(n):
        ps += [P(f"r{i}", 0, 3 if (i == 0 or tier != "quick") else 2), P(f"k{i}", 0, kinds), P(f"p{i}", 0, 1)]
    return ps


@guard
def h1(a, tier):
    quick = tier == "quick"
    n = pick(a["n"], 4)
    end = pick(a["end"], 3 if quick else 4)
    nested = pick(a["nested"], 2)
    outer = pick(a["outer"], 2)
    raises = []
    kinds = []
    passexc = []
    for i in range(n):
        raises.append(pick(a[f"r{i}"], 4 if (i == 0 or not quick) else 3))
        kinds.append(pick(a[f"k{i}"], 2 if quick else 3))
        passexc.append(pick(a[f"p{i}"], 2))
    log = []
    excs = {}
    received = {}
    closed = {}

    def mk(i):
        def finish():
            log.append(("end", i))
            if raises[i] == 1:
                excs[i] = CbErr(i)
                raise excs[i]
            if raises[i] == 2:
                excs[i] = CbBase(i)
                raise excs[i]
            if raises[i] == 3:
                got = received.get(i) or ()
                excs[i] = got[0] if (got and got[0] is not None) else CbErr(i)
                raise excs[i]

        # quick tier has two kinds; "async" alternates between a coroutine function and a
        # plain callable returning a non-coroutine awaitable object, so that both forms of
        # "any awaitable it returns" are exercised.  thorough has all three as own kinds.
        kind = kinds[i]
        if quick and kind == 1 and i % 2 == 0:
            kind = 2
        if kind == 0:

            def cb(*args):
                log.append(("begin", i))
                received[i] = args
                finish()
                return i  # sync callbacks may return any value (0, 1, 2 here): only AWAITABLES are awaited

        elif kind == 1:

            async def cb(*args):
                log.append(("begin", i))
                received[i] = args
                await anyio.sleep(0)
                finish()

        else:

            class Aw:
                def __await__(self):
                    yield from anyio.sleep(0).__await__()
                    finish()

            def cb(*args):
                log.append(("begin", i))
                received[i] = args
                return Aw()

        return cb

    inner_exc = BodyErr("inner")
    body_exc = [None, BodyErr("body"), BodyBase("body"), ExceptionGroup("body", [inner_exc])][end]

    async def block():
        async with Context() as ctx:
            closed["ctx"] = ctx
            for i in range(n):
                ctx.add_teardown_callback(mk(i), bool(passexc[i]))
            if body_exc is not None:
                raise body_exc

    async def run_block():
        if outer:
            try:
                raise KeyError("outer")
            except KeyError:
                return await block()
        return await block()

    async def main():
        if nested:
            async with Context():
                return await run_block()
        return await run_block()

    _, outcome, _k = run(main)
    summary = {
        "callbacks": [
            {"kind": KIND[2 if (quick and kinds[i] == 1 and i % 2 == 0) else kinds[i]], "raises": RAISES[raises[i]], "pass_exception": bool(passexc[i])}
            for i in range(n)
        ],
        "block_ends_with": ENDS[end],
        "context": "nested" if nested else "root",
        "inside_outer_except_handler": bool(outer),
    }
    order = list(reversed(range(n)))
    exp_log = []
    for i in order:
        exp_log += [("begin", i), ("end", i)]
    if log != exp_log:
        return FAIL(f"order:n={n}", f"log={log} expected={exp_log}", summary)
    for i in range(n):
        exp = (body_exc,) if passexc[i] else ()
        got = received[i]
        if len(got) != len(exp) or any(x is not y for x, y in zip(got, exp)):
            what = "outer-handler-exception" if (got and isinstance(got[0], KeyError)) else "other"
            return FAIL(
                f"pass_exception:end={ENDS[end]}:outer={outer}:got={what}",
                f"callback {i} received {got!r}, expected {exp!r}",
                summary,
            )
    ctx = closed.get("ctx")
    if ctx is None or not ctx.closed:
        return FAIL("not-closed", "", summary)
    if _accepts_after_exit(ctx):
        return FAIL(f"registration-accepted-after-exit:raised={bool(excs)}:end={ENDS[end]}:nested={nested}",
                    "add_teardown_callback() accepted on a context whose block has been left", summary)
    raised = [excs[i] for i in order if i in excs]
    sig = _outcome_ok(outcome, body_exc, raised, not nested)
    if sig:
        return FAIL(f"{sig}:end={ENDS[end]}:nested={nested}", f"outcome={outcome!r} raised={raised!r}", summary)
    return OK(summary, nontrivial=n > 0)


H1 = Harness(
    prop="C01",
    name="H1",
    fn=h1,
    params=h1_params,
    cube=lambda tier: 5 if tier == "quick" else 6,
    title="order / faults / pass_exception / outcome for n<=3 directly registered callbacks",
    bound_text=lambda tier: (
        "n<=3 callbacks x kind{sync,async" + (" (coroutine function at odd / awaitable object at even positions)" if tier == "quick" else " def,sync returning an awaitable object")
        + "} x raises{no,Exception,BaseException,the exception object it was passed} x pass_exception x block end{return,Exception,BaseException"
        + ("" if tier == "quick" else ",ExceptionGroup") + "} x {root,nested} x {plain, inside an outer except handler}"
    ),
    oracle="log == reverse registration order with begin/end adjacent; pass_exception value; ctx.closed; "
    "outcome table (group of exactly the callbacks' exceptions in invocation order / block's own outcome)",
    outside="more than 3 callbacks; callbacks that never terminate; __aexit__ from another task",
    stubs=STUBS_COMMON,
)



# ---------------------------------------------------------------------------- H2
ROUTES = ["add_teardown_callback(pass_exception=True)", "add_resource(teardown_callback=)",
          "@context_teardown generator", "start_service_task finalizer",
          "add_resource(teardown_callback=) refused by ResourceConflict on its second type, then retried under a free name",
          "add_resource(teardown_callback=) refused for an invalid name (never retried: callback must never run)"]


def h2_params(tier):
    n = 3 if tier == "quick" else 4
    ps = [P("n", 0, n), P("end", 0, 1), P("nested", 0, 2)]
    for i in range(n):
        ps += [P(f"route{i}", 0, 5), P(f"r{i}", 0, 1)]
    return ps


@guard
def h2(a, tier):
    nmax = 3 if tier == "quick" else 4
    n = pick(a["n"], nmax + 1)
    end = pick(a["end"], 2)
    nested = pick(a["nested"], 3)
    # nested 2: as 1, and before anything is registered a helper context whose parent is the OUTER context is entered and left inside the block;
    # items are then registered through the module-level shortcuts (which act on the current context)
    helper = nested == 2
    nested = 1 if nested else 0
    routes, raises = [], []
    for i in range(n):
        routes.append(pick(a[f"route{i}"], 6))
        raises.append(pick(a[f"r{i}"], 2) if routes[-1] not in (3, 5) else 0)
    log, excs, received = [], {}, {}
    body_exc = BodyErr("body") if end else None
    holder = {}

    def finish(i):
        log.append(("end", i))
        if raises[i]:
            excs[i] = CbErr(i)
            raise excs[i]

    @context_teardown
    async def shared_gen(i):
        exc = yield
        log.append(("begin", i))
        received[i] = exc
        await anyio.sleep(0)
        finish(i)

    async def register(ctx, i):
        r = routes[i]
        if r == 0:

            def cb(exc):
                log.append(("begin", i))
                received[i] = exc
                finish(i)

            (add_teardown_callback if helper else ctx.add_teardown_callback)(cb, pass_exception=True)
        elif r == 1:

            async def cb():
                log.append(("begin", i))
                await anyio.sleep(0)
                finish(i)

            # registered under TWO types: its teardown callback must still run exactly once
            (add_resource if helper else ctx.add_resource)(object(), f"res{i}", [_RA, _RB], teardown_callback=cb)
        elif r == 2:
            await shared_gen(i)  # ONE decorated function for all items (like one component class instantiated several times)
        elif r in (4, 5):

            def cb():
                log.append(("begin", i))
                finish(i)

            from asphalt.core import ResourceConflict

            if r == 4:
                ctx.add_resource(object(), f"taken{i}", [_RB])
                try:
                    ctx.add_resource(object(), f"taken{i}", [_RA, _RB], teardown_callback=cb)
                    holder["refusal-missing"] = i
                except ResourceConflict:
                    pass
                ctx.add_resource(object(), f"retry{i}", [_RA, _RB], teardown_callback=cb)
            else:
                try:
                    ctx.add_resource(object(), "not a valid name!", [_RA], teardown_callback=cb)
                    holder["refusal-missing"] = i
                except ValueError:
                    pass
        else:

            async def service():
                # the task's OWN context has an async teardown callback: the finalizer (the owner's callback) is complete only
                # when that has finished as well
                async def own_teardown():
                    with anyio.CancelScope(shield=True):
                        await anyio.sleep(0)
                        await anyio.sleep(0)
                    log.append(("end", i))

                from asphalt.core import current_context

                current_context().add_teardown_callback(own_teardown)
                try:
                    await anyio.sleep_forever()
                finally:
                    log.append(("begin", i))

            if helper:
                # started through the owner's METHOD while another, short-lived context is current
                async with Context():
                    await ctx.start_service_task(service, f"svc{i}")
            else:
                await start_service_task(service, f"svc{i}")

    async def block():
        try:
            async with Context() as ctx:
                holder["ctx"] = ctx
                if helper:
                    async with Context(holder["outer"]):
                        pass
                for i in range(n):
                    await register(ctx, i)
                await anyio.sleep(0)
                if body_exc is not None:
                    raise body_exc
        finally:
            log_left.append(len(log))

    async def main():
        if nested:
            async with Context() as outer:
                holder["outer"] = outer
                return await block()
        return await block()

    log_left = []
    _, outcome, k = run(main)
    summary = {
        "helper_context_with_another_parent_entered_and_left_first": bool(helper),
        "items": [{"route": ROUTES[routes[i]], "raises": bool(raises[i])} for i in range(n)],
        "block_ends_with": "Exception" if end else "return",
        "context": "nested" if nested else "root",
    }
    if "refusal-missing" in holder:
        return FAIL("routes-refusal-missing", f"item {holder['refusal-missing']}", summary)
    order = [i for i in reversed(range(n)) if routes[i] != 5]
    exp_log = []
    for i in order:
        exp_log += [("begin", i), ("end", i)]
    if log != exp_log:
        return FAIL(f"routes-order:{'/'.join(str(r) for r in routes)}", f"log={log} expected={exp_log}", summary)
    if not log_left or log_left[0] != len(log):
        return FAIL(f"routes-callbacks-ran-after-the-block-was-left:helper={helper}", f"{len(log) - (log_left[0] if log_left else 0)} log entries appeared after the block had been left", summary)
    for i, got in received.items():
        if got is not body_exc:
            return FAIL(f"routes-pass_exception:route={routes[i]}:end={end}", f"item {i} received {got!r}", summary)
    if not holder["ctx"].closed:
        return FAIL("not-closed", "", summary)
    if _accepts_after_exit(holder["ctx"]):
        return FAIL("routes-registration-accepted-after-exit", "", summary)
    if k.live_tasks():
        return FAIL("task-alive-after-exit", [t.name for t in k.live_tasks()], summary)
    raised = [excs[i] for i in order if i in excs]
    sig = _outcome_ok(outcome, body_exc, raised, not nested)
    if sig:
        return FAIL(f"routes-{sig}:end={end}:nested={nested}", f"outcome={outcome!r} raised={raised!r}", summary)
    return OK(summary, nontrivial=n > 1)


H2 = Harness(
    prop="C01",
    name="H2",
    fn=h2,
    params=h2_params,
    cube=lambda tier: 3 if tier == "quick" else 4,
    title="one global LIFO order across the four registration routes",
    bound_text=lambda tier: f"n<={3 if tier == 'quick' else 4} items x route{{add_teardown_callback, add_resource(teardown_callback=), "
    "@context_teardown, start_service_task, refused add_resource (conflict on the 2nd type) + retry, refused add_resource "
    "(invalid name)}} x raises{no,Exception} x block end{return,Exception} x {root,nested}",
    oracle="one LIFO order over all routes (service task's end observed where its finalizer runs); generator and "
    "pass_exception callbacks receive the block's exception; outcome table; no task alive afterwards",
    outside="more items; BaseException from callbacks (H1); service tasks that raise (C08)",
    stubs=STUBS_COMMON,
)


# ---------------------------------------------------------------------------- H3
def h3_params(tier):
    ps = [P("n0", 0, 1)]
    for j in range(2):
        ps += [P(f"c{j}", 0, 2), P(f"r{j}", 0, 1)]
        for m in range(2):
            ps += [P(f"g{j}{m}", 0, 1), P(f"route{j}{m}", 0, 1), P(f"rr{j}{m}", 0, 1 if tier != "quick" else 0)]
    return ps


@guard
def h3(a, tier):
    n0 = 1 + pick(a["n0"], 2)
    # program: initial callbacks j; child (j,m); grandchild (j,m,0)
    prog = {}
    for j in range(n0):
        c = pick(a[f"c{j}"], 3)
        prog[(j,)] = {"raises": pick(a[f"r{j}"], 2), "kids": [], "route": 0}
        for m in range(c):
            g = pick(a[f"g{j}{m}"], 2)
            route = pick(a[f"route{j}{m}"], 2)
            rr = pick(a[f"rr{j}{m}"], 2) if tier != "quick" else 0
            prog[(j, m)] = {"raises": rr, "kids": [(j, m, 0)] if g else [], "route": route}
            prog[(j,)]["kids"].append((j, m))
            if g:
                prog[(j, m, 0)] = {"raises": 0, "kids": [], "route": 0}
    log, excs = [], {}
    holder = {}

    def make(key):
        spec = prog[key]

        def cb():
            log.append(key)
            ctx = holder["ctx"]
            for kid in spec["kids"]:
                if prog[kid]["route"] == 0:
                    ctx.add_teardown_callback(make(kid))
                else:
                    ctx.add_resource(object(), "late" + "_".join(map(str, kid)), teardown_callback=make(kid))
            if spec["raises"]:
                excs[key] = CbErr(key)
                raise excs[key]

        return cb

    async def main():
        async with Context() as ctx:
            holder["ctx"] = ctx
            for j in range(n0):
                ctx.add_teardown_callback(make((j,)))

    _, outcome, _k = run(main)
    # model: stack
    stack = [(j,) for j in range(n0)]
    exp = []
    while stack:
        x = stack.pop()
        exp.append(x)
        stack.extend(prog[x]["kids"])
    summary = {"program": {"/".join(map(str, k)): {"registers": len(v["kids"]), "raises": bool(v["raises"]),
                                                  "via": "add_resource" if v["route"] else "add_teardown_callback"}
                           for k, v in prog.items()}}
    if log != exp:
        return FAIL("during-teardown-order", f"log={log} expected={exp}", summary)
    raised = [excs[k] for k in exp if k in excs]
    sig = _outcome_ok(outcome, None, raised, True)
    if sig:
        return FAIL(f"during-teardown-{sig}", f"outcome={outcome!r}", summary)
    if not holder["ctx"].closed:
        return FAIL("not-closed", "", summary)
    return OK(summary, nontrivial=len(prog) > n0)


H3 = Harness(
    prop="C01",
    name="H3",
    fn=h3,
    params=h3_params,
    cube=lambda tier: 3,
    title="callbacks registered during teardown (stack semantics, exactly once)",
    bound_text=lambda tier: "1-2 initial callbacks, each registering 0-2 callbacks while it runs (via add_teardown_callback or "
    "add_resource(teardown_callback=)), each of which may register one more; raising flags on initial"
    + (" and late" if tier != "quick" else "") + " callbacks",
    oracle="invocation log equals a stack machine's (late registrations run next, before older ones), each once; "
    "group of the raised exceptions in invocation order",
    outside="deeper registration chains; async late callbacks",
    stubs=STUBS_COMMON,
)


# ---------------------------------------------------------------------------- H4
def h4_params(tier):
    S = 6 if tier == "quick" else 9
    return [P("k", 0, 7), P("nested", 0, 1)] + [P(f"s{i}", 0, 2) for i in range(S)]


@guard
def h4(a, tier):
    S = 6 if tier == "quick" else 9
    k_steps = pick(a["k"], 8)
    nested = pick(a["nested"], 2)
    tape = Tape([a[f"s{i}"] for i in range(S)])
    log = []
    info = {}
    Cancelled = symsched.Cancelled

    def sync_cb(exc):
        log.append(("begin", 0))
        info["received"] = exc
        log.append(("end", 0))

    async def async_cb(i, checkpoints):
        log.append(("begin", i))
        try:
            for _ in range(checkpoints):
                await anyio.sleep(0)
        except BaseException as e:
            log.append(("cancelled" if isinstance(e, Cancelled) else "error", i))
            raise
        log.append(("end", i))

    async def canceller(scope):
        for _ in range(k_steps):
            await anyio.sleep(0)
        info["cancel_sent"] = True
        scope.cancel()

    async def block(scope):
        try:
            async with Context() as ctx:
                info["ctx"] = ctx
                ctx.add_teardown_callback(sync_cb, pass_exception=True)
                ctx.add_teardown_callback(lambda: async_cb(1, 1))
                ctx.add_teardown_callback(lambda: async_cb(2, 2))
                try:
                    for i in range(3):
                        await anyio.sleep(0)
                    info["body"] = "completed"
                except BaseException as e:
                    info["body"] = e
                    raise
        except BaseException as e:
            info["left_with"] = e
            raise

    async def main():
        async with anyio.create_task_group() as tg:
            scope = anyio.CancelScope()
            tg.start_soon(canceller, scope)
            with scope:
                if nested:
                    async with Context():
                        await block(scope)
                else:
                    await block(scope)

    _, outcome, _k = run(main, chooser=tape)
    summary = {"canceller_checkpoints_before_cancel": k_steps, "context": "nested" if nested else "root",
               "schedule": tape.taken, "body": repr(info.get("body")), "log": [f"{a_}{b}" for a_, b in log]}
    begins = [i for ev, i in log if ev == "begin"]
    if begins != [2, 1, 0]:
        return FAIL("cancel-order", f"log={log}", summary)
    # one at a time: every begin is followed by its own end/cancelled before the next begin
    for idx in range(0, len(log), 2):
        if idx + 1 >= len(log) or log[idx][0] != "begin" or log[idx + 1][1] != log[idx][1] or log[idx + 1][0] == "error":
            return FAIL("cancel-overlap-or-error", f"log={log}", summary)
    body = info.get("body")
    if body == "completed":
        if info.get("received") is not None:
            return FAIL("cancel-pass_exception:clean-body-got-exception", repr(info.get("received")), summary)
    else:
        if not isinstance(body, Cancelled):
            return FAIL("cancel-body-unexpected", repr(body), summary)
        if info.get("received") is not body:
            return FAIL("cancel-pass_exception:cancelled-body", f"received={info.get('received')!r} body={body!r}", summary)
    if not info["ctx"].closed:
        return FAIL("not-closed", "", summary)
    if _accepts_after_exit(info["ctx"]):
        return FAIL("cancel-registration-accepted-after-exit", f"log={log}", summary)
    left = info.get("left_with")
    cancelled_cbs = [i for ev, i in log if ev == "cancelled"]
    if left is not None and not all(isinstance(x, Cancelled) for x in flatten(left)):
        return FAIL("cancel-foreign-exception", repr(left), summary)
    if cancelled_cbs and left is None:
        return FAIL("cancel-swallowed-callback-cancellation", f"log={log}", summary)
    if outcome is not None:
        return FAIL("cancel-outcome", repr(outcome), summary)
    return OK(summary, nontrivial=isinstance(body, Cancelled) or bool(cancelled_cbs))


H4 = Harness(
    prop="C01",
    name="H4",
    fn=h4,
    params=h4_params,
    cube=lambda tier: 2 if tier == "quick" else 3,
    title="block or teardown cancelled at any checkpoint, under all schedule prefixes",
    bound_text=lambda tier: f"canceller task cancels the scope around the block after 0-7 checkpoints; block has 3 checkpoints; "
    f"3 callbacks (sync with pass_exception, async with 1 and with 2 checkpoints); root/nested; first {6 if tier == 'quick' else 9} "
    "scheduling decisions arbitrary (<=3 runnable tasks), FIFO afterwards",
    oracle="all callbacks begin exactly once in reverse order, one at a time; sync callback completes; cancelled callbacks end "
    "with the backend's cancellation; pass_exception gets the cancellation that ended the block (None if the body completed); "
    "context closed; nothing but cancellation leaves the block",
    outside="what the surrounding cancel scope does with a group of cancellations (backend specific)",
    stubs=STUBS_COMMON,
)

HARNESSES = [H1, H2, H3, H4]
