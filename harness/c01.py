"""C01 -- Context teardown runs every callback exactly once, LIFO, one at a time."""
from __future__ import annotations

import anyio

from .common import (
    FAIL,
    OK,
    STUBS_COMMON,
    BodyBase,
    BodyErr,
    CbBase,
    CbErr,
    Harness,
    P,
    Tape,
    find_group,
    flag,
    flatten,
    guard,
    pick,
    run,
)
from asphalt.core import Context, context_teardown, start_service_task  # noqa: E402

import symsched

KIND = ["sync", "async+checkpoint", "sync-returning-awaitable"]
RAISES = ["ok", "Exception", "BaseException"]
ENDS = ["return", "Exception", "BaseException", "ExceptionGroup"]


def _outcome_ok(outcome, body_exc, raised, root):
    """Outcome table of the statement.  Returns None or a signature string."""
    if raised:
        if not find_group(outcome, raised):
            return "group"
        return None
    if body_exc is None:
        return None if outcome is None else "outcome:clean-exit-raised"
    if outcome is body_exc:
        return None
    if isinstance(body_exc, Exception) and not isinstance(body_exc, BaseExceptionGroup):
        return "outcome:plain-exception-not-itself"
    # BaseException / group endings: the statement only fixes "the block's own outcome";
    # a task group may legitimately wrap a non-Exception in a group
    if outcome is not None and flatten(outcome) == flatten(body_exc):
        return None
    return "outcome:lost-or-changed"


# ---------------------------------------------------------------------------- H1
def h1_params(tier):
    n = 3
    ps = [P("n", 0, n), P("end", 0, 2 if tier == "quick" else 3), P("nested", 0, 1), P("outer", 0, 1)]
    kinds = 1 if tier == "quick" else 2
    for i in range(n):
        ps += [P(f"r{i}", 0, 2), P(f"k{i}", 0, kinds), P(f"p{i}", 0, 1)]
    return ps


@guard
def h1(a, tier):
    quick = tier == "quick"
    n = pick(a["n"], 4)
    end = pick(a["end"], 3 if quick else 4)
    nested = pick(a["nested"], 2)
    outer = pick(a["outer"], 2)
    raises = []
    kinds = []
    passexc = []
    for i in range(n):
        raises.append(pick(a[f"r{i}"], 3))
        kinds.append(pick(a[f"k{i}"], 2 if quick else 3))
        passexc.append(pick(a[f"p{i}"], 2))
    log = []
    excs = {}
    received = {}
    closed = {}

    def mk(i):
        def finish():
            log.append(("end", i))
            if raises[i] == 1:
                excs[i] = CbErr(i)
                raise excs[i]
            if raises[i] == 2:
                excs[i] = CbBase(i)
                raise excs[i]

        if kinds[i] == 0:

            def cb(*args):
                log.append(("begin", i))
                received[i] = args
                finish()

        elif kinds[i] == 1:

            async def cb(*args):
                log.append(("begin", i))
                received[i] = args
                await anyio.sleep(0)
                finish()

        else:

            def cb(*args):
                log.append(("begin", i))
                received[i] = args

                async def rest():
                    await anyio.sleep(0)
                    finish()

                return rest()

        return cb

    inner_exc = BodyErr("inner")
    body_exc = [None, BodyErr("body"), BodyBase("body"), ExceptionGroup("body", [inner_exc])][end]

    async def block():
        async with Context() as ctx:
            closed["ctx"] = ctx
            for i in range(n):
                ctx.add_teardown_callback(mk(i), bool(passexc[i]))
            if body_exc is not None:
                raise body_exc

    async def run_block():
        if outer:
            try:
                raise KeyError("outer")
            except KeyError:
                return await block()
        return await block()

    async def main():
        if nested:
            async with Context():
                return await run_block()
        return await run_block()

    _, outcome, _k = run(main)
    summary = {
        "callbacks": [
            {"kind": KIND[kinds[i]], "raises": RAISES[raises[i]], "pass_exception": bool(passexc[i])}
            for i in range(n)
        ],
        "block_ends_with": ENDS[end],
        "context": "nested" if nested else "root",
        "inside_outer_except_handler": bool(outer),
    }
    order = list(reversed(range(n)))
    exp_log = []
    for i in order:
        exp_log += [("begin", i), ("end", i)]
    if log != exp_log:
        return FAIL(f"order:n={n}", f"log={log} expected={exp_log}", summary)
    for i in range(n):
        exp = (body_exc,) if passexc[i] else ()
        got = received[i]
        if len(got) != len(exp) or any(x is not y for x, y in zip(got, exp)):
            what = "outer-handler-exception" if (got and isinstance(got[0], KeyError)) else "other"
            return FAIL(
                f"pass_exception:end={ENDS[end]}:outer={outer}:got={what}",
                f"callback {i} received {got!r}, expected {exp!r}",
                summary,
            )
    ctx = closed.get("ctx")
    if ctx is None or not ctx.closed:
        return FAIL("not-closed", "", summary)
    raised = [excs[i] for i in order if i in excs]
    sig = _outcome_ok(outcome, body_exc, raised, not nested)
    if sig:
        return FAIL(f"{sig}:end={ENDS[end]}:nested={nested}", f"outcome={outcome!r} raised={raised!r}", summary)
    return OK(summary, nontrivial=n > 0)


H1 = Harness(
    prop="C01",
    name="H1",
    fn=h1,
    params=h1_params,
    cube=lambda tier: 5 if tier == "quick" else 6,
    title="order / faults / pass_exception / outcome for n<=3 directly registered callbacks",
    bound_text=lambda tier: (
        "n<=3 callbacks x kind{sync,async+checkpoint" + ("" if tier == "quick" else ",sync returning awaitable")
        + "} x raises{no,Exception,BaseException} x pass_exception x block end{return,Exception,BaseException"
        + ("" if tier == "quick" else ",ExceptionGroup") + "} x {root,nested} x {plain, inside an outer except handler}"
    ),
    oracle="log == reverse registration order with begin/end adjacent; pass_exception value; ctx.closed; "
    "outcome table (group of exactly the callbacks' exceptions in invocation order / block's own outcome)",
    outside="more than 3 callbacks; callbacks that never terminate; __aexit__ from another task",
    stubs=STUBS_COMMON,
)

HARNESSES = [H1]
