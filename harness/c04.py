"""C04 -- Factory-generated resources are per-context singletons of the requesting context."""
from __future__ import annotations

import anyio

from .common import FAIL, OK, STUBS_COMMON, Harness, P, Tape, guard, pick, run
from .rhist import INJECTED, T0, T1, Alphabet, Val, decode, max_options, run_history

from asphalt.core import AsyncResourceError, Context, current_context  # noqa: E402

ALPHA = Alphabet(
    max_ctx=3,
    add=[((T1,), "a", "ok")],
    fac=[((T0,), "a", False, "ok"), ((T0, T1), "a", False, "ok"), ((T0,), "a", True, "ok"), ((T0, T1), "a", True, "ok")],
    look=[(T0, "a", "nowait"), (T1, "a", "nowait"), (T0, "a", "await"), (T1, "a", "await"),
          (T0, "a", "inject_sync"), (T0, "a", "inject_async"), (T0, "a", "shortcut_await"), (T1, "a", "inject_async_opt")],
    visit=True,
)
ALPHA_T = Alphabet(
    max_ctx=3,
    add=[((T1,), "a", "ok"), ((T0,), "a", "ok")],
    fac=ALPHA.fac + [((T1, T0), "b", True, "ok")],
    look=ALPHA.look + [(T1, "a", "inject_async"), (T0, "b", "shortcut_await")],
)


def cfg(tier):
    return (ALPHA, 3) if tier == "quick" else (ALPHA_T, 3)


ALPHA_4 = Alphabet(max_ctx=2, add=ALPHA.add, fac=ALPHA.fac, look=ALPHA.look)


def params(tier):
    alpha, K = cfg(tier)
    return [P(f"o{i}", 0, max_options(alpha) - 1) for i in range(K)]


def _rfn(a, tier, four=False):
    alpha, K = (ALPHA_4, 4) if four else cfg(tier)
    ops = decode(a, alpha, K)
    div, eng = run_history(ops)
    summary = {"history": [o.text() for o in ops], "factory_calls": eng.fac_calls}
    if div is not None:
        if "C04" in div.classes:
            return FAIL(div.sig, div.detail, summary)
        return OK(summary, nontrivial=False)
    return OK(summary, nontrivial=bool(eng.fac_calls))


rfn = guard(lambda a, tier: _rfn(a, tier, False))

R = Harness(
    prop="C04",
    name="R",
    fn=rfn,
    params=params,
    cube=lambda tier: 1 if tier == "quick" else 2,
    title="R-history with sync/async single/multi-type factories and lookups through every API",
    bound_text=lambda tier: (
        "histories of 3 ops over <=3 contexts: create_child, add_resource(T1), add_resource_factory(T0 | T0+T1, sync | async), "
        "lookup(T0|T1 via nowait/await/inject_sync/inject_async); then generating probes everywhere"
        if tier == "quick"
        else "histories of 3 ops, same alphabet plus a static T0, a second-name async factory and shortcut lookups"
    ),
    oracle="factory called exactly once per (context, factory), in the requesting context; product returned afterwards for every factory type "
    "not already taken there, by every API; invisible in the parent; not inherited by contexts created later (sync AND async generation); "
    "AsyncResourceError from sync APIs on async factories with nothing stored",
    outside="factories that raise; longer histories",
    stubs=STUBS_COMMON,
)


R4 = Harness(
    prop="C04",
    name="R4",
    fn=guard(lambda a, tier: _rfn(a, tier, True)),
    params=lambda tier: [P(f"o{i}", 0, max_options(ALPHA_4) - 1) for i in range(4)],
    cube=lambda tier: 2,
    tiers=("thorough",),
    title="R-history of FOUR operations over <=2 contexts (the quick alphabet)",
    bound_text=lambda tier: "histories of 4 ops over <=2 contexts with the quick tier's alphabet, then generating probes",
    oracle=R.oracle,
    outside=R.outside,
    stubs=STUBS_COMMON,
)


# ------------------------------------------------------------------------------ G-addrace (scenario shared with C03)
def _addrace_fn(a, tier):
    from . import c03 as _c03

    return _c03._addrace(a, tier, "C04")


def _addrace_params(tier):
    from . import c03 as _c03

    return _c03.addrace_params(tier)


ADDRACE = Harness(
    prop="C04",
    name="G-addrace",
    fn=guard(_addrace_fn),
    params=_addrace_params,
    cube=lambda tier: 3,
    title="a type of the factory that gets taken by a static resource WHILE the generation is in flight keeps the static resource",
    bound_text=lambda tier: "as C03 G-addrace: async (T0,T1) factory awaiting 0-2 checkpoints raced by add_resource(T1) after 0-3 checkpoints under arbitrary "
    "schedule prefixes; and a synchronous (T0,T1) factory that publishes the static T1 itself while it runs (sync and async lookup API)",
    oracle="the product is stored under the factory's types 'not already taken by another resource' at the moment it is stored: the static T1 is what "
    "every lookup API returns from then on, the product stays under T0",
    outside="more tasks; factories that raise",
    stubs=STUBS_COMMON,
)


# ------------------------------------------------------------------------------ G-cross
def cross_params(tier):
    return [P("layout", 0, 1), P("delay", 0, 2), P("api", 0, 1)] + [P(f"s{i}", 0, 2) for i in range(3 if tier == "quick" else 5)]


@guard
def cross_fn(a, tier):
    """Generations of ONE factory pending in two different contexts at the same time: each context generates its own, neither waits for the other's."""
    layout, delay, api = pick(a["layout"], 2), pick(a["delay"], 3), pick(a["api"], 2)
    tape = Tape([a[f"s{i}"] for i in range(3 if tier == "quick" else 5)])
    calls, got = [], {}

    async def main():
        gate = anyio.Event()

        async def factory():
            calls.append(current_context())
            v = Val(f"gen#{len(calls)}")
            if anyio.get_current_task().id == got.get("first_task"):
                await gate.wait()  # this generation cannot finish before the OTHER context has been served
            else:
                await anyio.sleep(0)
            return v

        async with Context() as parent:
            parent.add_resource_factory(factory, "a", types=[T0])

            async def first():
                got["first_task"] = anyio.get_current_task().id
                if layout == 0:
                    got["first"] = (parent, await parent.get_resource(T0, "a"))
                else:
                    async with Context() as sib:
                        got["first"] = (sib, await sib.get_resource(T0, "a"))

            async def second():
                for _ in range(delay):
                    await anyio.sleep(0)
                async with Context() as child:
                    if api == 0:
                        r = await child.get_resource(T0, "a")
                    else:
                        r = await INJECTED[(T0, "a")][1]()
                    got["second"] = (child, r)
                    gate.set()

            async with anyio.create_task_group() as tg:
                tg.start_soon(first)
                tg.start_soon(second)

    _, exc, _k = run(main, chooser=tape)
    summary = {"first_lookup_in": ["the parent", "a sibling context"][layout], "second_lookup_in": "a child context created while the first generation is pending",
               "second_lookup_via": ["get_resource", "injected coroutine function"][api], "delay": delay, "schedule": tape.taken}
    if exc is not None:
        raise exc
    if "first" not in got or "second" not in got:
        return FAIL("cross:lookup-missing", f"{got}", summary)
    if len(calls) != 2 or got["first"][1] is got["second"][1]:
        return FAIL(f"cross:each-context-must-generate-its-own:calls={len(calls)}", f"{got}", summary)
    ctxs = {id(got["first"][0]), id(got["second"][0])}
    if {id(c) for c in calls} != ctxs:
        return FAIL("cross:factory-ran-in-the-wrong-context", "", summary)
    return OK(summary, True)


CROSS = Harness(
    prop="C04",
    name="G-cross",
    fn=cross_fn,
    params=cross_params,
    cube=lambda tier: 2,
    title="generations of one async factory pending in two contexts at once",
    bound_text=lambda tier: "factory registered in the parent; first lookup in the parent / in a sibling context, its generation cannot finish before a second context "
    f"(a child created 0-2 checkpoints later) has been served through get_resource / an injected coroutine function; first {3 if tier == 'quick' else 5} scheduling decisions arbitrary",
    oracle="both lookups return (no context waits for another context's generation), the factory ran once in each context, two distinct objects",
    outside="more than two contexts",
    stubs=STUBS_COMMON,
)


# ------------------------------------------------------------------------------ G-race
APIS = ["await get_resource(T0)", "await get_resource(T1)", "get_resource_nowait(T0)", "injected async fn (T0)"]


def race_params(tier):
    S = 5 if tier == "quick" else 7
    n = 3
    return [P("ntask", 0, n - 2), P("fsteps", 0, 3), P("multi", 0, 1), P("failfirst", 0, 2)] + [P(f"api{i}", 0, 3) for i in range(n)] + [
        P(f"s{i}", 0, 3 if tier == "quick" else 4) for i in range(S)
    ]


def _race(a, tier, fail_override=None, prop="C04"):
    S = 5 if tier == "quick" else 7
    fsteps = pick(a["fsteps"], 4) - 1  # -1: a synchronous factory; 0..2: async factory awaiting that many checkpoints
    multi = pick(a["multi"], 2)
    # 1: the first generation attempt raises after its checkpoints; 2: the task running the first attempt is cancelled in mid-generation
    failfirst = (pick(a["failfirst"], 3) if fail_override is None else fail_override) if fsteps >= 0 else 0
    if tier == "quick":
        n = 3 if failfirst else 2  # a failed generation needs two waiters behind it
    else:
        n = 2 + pick(a["ntask"], 2)
    apis = [pick(a[f"api{i}"], 2 if (failfirst and tier == "quick") else 4) for i in range(n)]
    tape = Tape([a[f"s{i}"] for i in range(3 if (failfirst and tier == "quick") else S)])
    calls = []
    results = {}
    events = []

    class FactoryBoom(Exception):
        pass

    async def afactory():
        calls.append(current_context())
        mine = len(calls)
        v = Val(f"gen#{mine}")
        for _ in range(fsteps):
            await anyio.sleep(0)
        if failfirst == 2 and mine == 1 and anyio.get_current_task().id in scopes:
            scopes[anyio.get_current_task().id].cancel()
            cancelled.append(anyio.get_current_task().id)
            await anyio.sleep(0)
        if failfirst and mine == 1:
            raise FactoryBoom("first generation fails")
        return v

    def sfactory():
        calls.append(current_context())
        return Val(f"gen#{len(calls)}")

    factory = sfactory if fsteps < 0 else afactory

    scopes, cancelled = {}, []

    async def racer(i, ctx):
        with anyio.CancelScope() as scope:
            scopes[anyio.get_current_task().id] = scope
            await racer_(i, ctx)
        if scope.cancelled_caught:
            results[i] = "cancelled-in-mid-generation"

    async def racer_(i, ctx):
        api = apis[i]
        try:
            if api == 0:
                results[i] = await ctx.get_resource(T0, "a")
            elif api == 1:
                results[i] = await ctx.get_resource(T1 if multi else T0, "a")
            elif api == 2:
                results[i] = ctx.get_resource_nowait(T0, "a")
            else:
                results[i] = await INJECTED[(T0, "a")][1]()
        except Exception as e:
            results[i] = e

    holder = {}

    async def outer():
        async with anyio.create_task_group() as tg:
            holder["ret"] = await main_with_listener(tg)

    async def main_with_listener(tg):
        async with Context() as ctx:
            ctx.add_resource_factory(factory, "a", types=[T0, T1] if multi else [T0])

            async def listen(*, task_status):
                with anyio.CancelScope() as scope:
                    holder["scope"] = scope
                    async with ctx.resource_added.stream_events(max_queue_size=20) as stream:
                        task_status.started()
                        async for ev in stream:
                            events.append(ev)

            await tg.start(listen)
            async with anyio.create_task_group() as tg2:
                for i in range(n):
                    tg2.start_soon(racer, i, ctx)
            try:
                first_final = await ctx.get_resource(T0, "a")
            except FactoryBoom:  # nobody had generated yet: this call ran the failing first attempt
                results["main"] = FactoryBoom()
                first_final = await ctx.get_resource(T0, "a")
            final = [first_final, ctx.get_resource_nowait(T0, "a")]
            if multi:
                final.append(ctx.get_resource_nowait(T1, "a"))
            await anyio.wait_all_tasks_blocked()
            holder["scope"].cancel()
            return ctx, final

    _, exc, _k = run(outer, chooser=tape)
    if exc is not None:
        raise exc
    ctx, final = holder["ret"]
    summary = {"tasks": [APIS[x] for x in apis], "factory": "synchronous" if fsteps < 0 else f"async, {fsteps} checkpoints", "multi_type": bool(multi), "first_generation_raises": bool(failfirst),
               "schedule": tape.taken, "factory_calls": len(calls)}
    objs = [r for r in results.values() if isinstance(r, Val)] + [f for f in final if isinstance(f, Val)]
    booms = [i for i, r in results.items() if type(r).__name__ == "FactoryBoom" or r == "cancelled-in-mid-generation"]
    summary["first_generation"] = ["succeeds", "raises", "its requester is cancelled while the factory is awaited"][failfirst]
    apis_of = lambda i: 0 if i == "main" else apis[i]  # noqa: E731
    if prop == "C18":
        # C18's clause only: the first (successful) generation in this context announces itself exactly once, whatever the interleaving
        gen_events = [e for e in events if not e.is_factory]
        if len(gen_events) != 1:
            return FAIL(f"race:generation-events={len(gen_events)}:first-attempt={failfirst}", f"factory calls={len(calls)} results={results}", summary)
        ev = gen_events[0]
        if tuple(ev.resource_types) != ((T0, T1) if multi else (T0,)) or ev.resource_name != "a":
            return FAIL("race:generation-event-payload", f"{ev.resource_types} {ev.resource_name}", summary)
        return OK(summary, True)
    if failfirst:
        # exactly the requester that ran the failing generation sees the error; the others retry: ONE more call
        expected_calls = 2
        if len(booms) > 1:
            return FAIL("race:failed-generation-reported-to-several-requesters", f"results={results}", summary)
        for i, r in results.items():
            if i in booms:
                continue
            if apis_of(i) == 2:
                if not (isinstance(r, AsyncResourceError) or isinstance(r, Val)):
                    return FAIL(f"race:nowait-unexpected:{type(r).__name__}", repr(r), summary)
            elif not isinstance(r, Val):
                return FAIL(f"race:lookup-failed-after-a-failed-generation:{type(r).__name__}", repr(r), summary)
        vals = [r for r in results.values() if isinstance(r, Val)] + [f for f in final if isinstance(f, Val)]
        if any(v is not vals[0] for v in vals):
            return FAIL("race:different-objects-after-a-failed-generation", f"results={results} final={final}", summary)
        if len(calls) != (expected_calls if booms else 1) and not (not booms and len(calls) == 1):
            return FAIL(f"race:factory-called-{len(calls)}-times-after-a-failed-generation", f"results={results}", summary)
        return OK(summary, True)
    for i, r in results.items():
        if apis_of(i) == 2:
            # sync API: either the async factory is refused, or (if another task already
            # finished generating) the stored product is returned
            if not ((isinstance(r, AsyncResourceError) and fsteps >= 0) or isinstance(r, Val)):
                return FAIL("race:nowait-unexpected", repr(r), summary)
        elif not isinstance(r, Val):
            return FAIL(f"race:lookup-failed:{type(r).__name__}", repr(r), summary)
    if len(calls) != 1:
        return FAIL(f"race:factory-called-{len(calls)}-times:tasks={n}:fsteps={fsteps}", f"results={results}", summary)
    if any(o is not objs[0] for o in objs):
        return FAIL("race:different-objects", f"results={results} final={final}", summary)
    if any(c is not ctx for c in calls):
        return FAIL("race:factory-ran-in-other-context", "", summary)
    gen_events = [e for e in events if not e.is_factory]
    if len(gen_events) != 1:
        return FAIL(f"race:generation-events={len(gen_events)}", "", summary)
    return OK(summary, nontrivial=True)


race_fn = guard(lambda a, tier: _race(a, tier))

RACE = Harness(
    prop="C04",
    name="G-race",
    fn=race_fn,
    params=race_params,
    cube=lambda tier: 6 if tier == "quick" else 7,
    title="concurrent lookups of one async factory from several tasks under all schedule prefixes",
    bound_text=lambda tier: f"2-3 tasks x first generation attempt {{succeeds, raises, its requester is cancelled while the factory is awaited}} x lookup API{{get_resource(T0), get_resource(sibling type), get_resource_nowait, injected}} "
    f"x factory {{synchronous, async awaiting 0-2 checkpoints}} x single/multi-type; first {5 if tier == 'quick' else 8} scheduling decisions arbitrary (any of up to 5 runnable tasks; 3 decisions in the 3-task quick variant), FIFO afterwards",
    oracle="factory called exactly once, in the requesting context; every successful lookup (racing or later, any type of the factory) "
    "returns that one object; exactly one resource_added event for the generation; the sync API either refuses (AsyncResourceError) or returns the stored product",
    outside=">3 racing tasks; schedules deviating after the prefix",
    stubs=STUBS_COMMON,
)

HARNESSES = [R, R4, RACE, ADDRACE, CROSS]


# ------------------------------------------------------------------------------ K-comp
from typing import Optional  # noqa: E402

from .ctree import RT, Env, NodeSpec, build_classes  # noqa: E402

from asphalt.core import get_resource, get_resource_nowait, inject, resource, start_component  # noqa: E402

COMP_APIS = ["get_resource_nowait(T, optional=True)", "get_resource_nowait(T)", "await get_resource(T, optional=True)", "await get_resource(T)",
             "sync @inject function with Optional[T]", "async @inject function with T"]
KT = RT[3]


@inject
def _inj_opt(*, r: Optional[KT] = resource("made")):
    return r


@inject
async def _inj_async(*, r: KT = resource("made")):
    return r


def kcomp_params(tier):
    return [P("first", 0, 5), P("second", 0, 5), P("node", 0, 1), P("phase", 0, 1), P("fasync", 0, 1), P("late", 0, 1), P("falsy", 0, 1)]


class FalsyVal(Val):
    """A product that is falsy (think of an empty queue / inbox object)."""

    def __len__(self):
        return 0


@guard
def kcomp_fn(a, tier):
    first, second = pick(a["first"], 6), pick(a["second"], 6)
    node, phase, fasync = pick(a["node"], 2), pick(a["phase"], 2), pick(a["fasync"], 2)
    late = pick(a["late"], 2) if node == 1 else 0  # the factory is published by a SIBLING while the component already waits for it
    if late:
        first = 3 if first % 2 else 5  # the first lookup must be a waiting (non-optional, async) one
    env = Env()
    made = []
    got = {}
    mk = FalsyVal if pick(a["falsy"], 2) else Val

    def sfactory():
        made.append(1)
        return mk(f"made#{len(made)}")

    async def afactory():
        made.append(1)
        await anyio.sleep(0)
        return mk(f"made#{len(made)}")

    async def lookup(api):
        if api == 0:
            return get_resource_nowait(KT, "made", optional=True)
        if api == 1:
            return get_resource_nowait(KT, "made")
        if api == 2:
            return await get_resource(KT, "made", optional=True)
        if api == 3:
            return await get_resource(KT, "made")
        if api == 4:
            return _inj_opt()
        return await _inj_async()

    def probe(env_, nd):
        async def go():
            for tag, api in (("first", first), ("second", second)):
                try:
                    got[tag] = await lookup(api)
                except Exception as e:
                    got[tag] = e

        return go()

    steps = [("call", probe)]
    target = NodeSpec(node, -1 if node == 0 else 0, steps if phase == 0 else [], steps if phase == 1 else [])
    nodes = [target] if node == 0 else [NodeSpec(0, -1, [], []), target]
    if late:
        nodes.append(NodeSpec(2, 0, [("cp",), ("cp",), ("fac", "latefac", afactory if fasync else sfactory, "made", [KT])], []))
    classes = build_classes(env, nodes)

    async def main():
        async with Context() as ctx:
            if not late:
                ctx.add_resource_factory(afactory if fasync else sfactory, "made", types=[KT])
            await start_component(classes[0], {}, timeout=100)
            got["after"] = await ctx.get_resource(KT, "made")
            got["after_nowait"] = ctx.get_resource_nowait(KT, "made")

    _, exc, _k = run(main)
    summary = {"factory": "async" if fasync else "sync", "product": "a falsy object" if mk is FalsyVal else "an ordinary object",
               "registered": "by a sibling component while the component is already waiting" if late else "in the application context before start_component",
               "lookups_inside": f"{['root', 'child'][node]}.{['prepare', 'start'][phase]}()", "first": COMP_APIS[first], "second": COMP_APIS[second]}
    if exc is not None:
        return FAIL(f"kcomp:raised:{type(exc).__name__}", repr(exc), summary)
    vals = []
    for tag, api in (("first", first), ("second", second)):
        r = got[tag]
        sync_api = api in (0, 1, 4)
        if fasync and sync_api and not vals and not made:
            if not isinstance(r, AsyncResourceError):
                return FAIL(f"kcomp:async-factory-via-sync-api:{COMP_APIS[api]}", repr(r), summary)
            continue
        if isinstance(r, Exception) and not (fasync and sync_api and isinstance(r, AsyncResourceError) and not vals):
            return FAIL(f"kcomp:lookup-failed:{COMP_APIS[api]}:{type(r).__name__}", repr(r), summary)
        if isinstance(r, Val):
            vals.append(r)
        elif not isinstance(r, Exception):
            return FAIL(f"kcomp:not-the-product:{COMP_APIS[api]}", repr(r), summary)
    vals += [got["after"], got["after_nowait"]]
    if any(v is not vals[0] for v in vals):
        return FAIL(f"kcomp:different-objects:first={COMP_APIS[first]}:second={COMP_APIS[second]}", f"{got}", summary)
    if len(made) != 1:
        return FAIL(f"kcomp:factory-called-{len(made)}-times:first={COMP_APIS[first]}", f"{got}", summary)
    return OK(summary, True)


KCOMP = Harness(
    prop="C04",
    name="K-comp",
    fn=kcomp_fn,
    params=kcomp_params,
    cube=lambda tier: 1,
    title="a factory of the application context looked up from inside components through every API variant (ComponentContext wrappers)",
    bound_text=lambda tier: "two consecutive lookups, each via {" + "; ".join(COMP_APIS) + "}, inside root/child prepare()/start(); sync / async factory",
    oracle="one factory call; both lookups and later lookups in the application context return the same object (AsyncResourceError, nothing stored, "
    "for sync APIs on the async factory before it was generated)",
    outside="-",
    stubs=STUBS_COMMON,
)
HARNESSES.append(KCOMP)


# ------------------------------------------------------------------------------ J-race (scenario shared with C19)
def _jrace_fn(a, tier):
    from . import c19 as _c19

    return _c19._race(a, tier, 1)


def _jrace_params(tier):
    from . import c19 as _c19

    return _c19.race_params(tier)


JRACE = Harness(
    prop="C04",
    name="J-race",
    fn=guard(_jrace_fn),
    params=_jrace_params,
    cube=lambda tier: 3,
    title="one injected coroutine function called concurrently from two contexts whose first parameter is factory-generated: each context keeps its own product",
    bound_text=lambda tier: "as C19 J-race: two tasks in two contexts call the same @inject coroutine function with two injected parameters (the first static / sync-factory / async-factory, "
    "the second from an async factory awaiting 0-2 checkpoints) under arbitrary schedule prefixes",
    oracle="the generated object handed to the injected call is the one belonging to the calling context (what its other lookup APIs return)",
    outside="more than two concurrent calls",
    stubs=STUBS_COMMON,
)
HARNESSES.append(JRACE)
