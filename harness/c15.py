"""C15 -- run_application: every ending tears down the root context, exits as documented."""
from __future__ import annotations

import signal
import warnings

import anyio

from .common import FAIL, OK, STUBS_COMMON, BodyBase, BodyErr, DeviationTape, Harness, P, flatten, guard, pick, run  # noqa: F401

import symsched
import asphalt.core._component as _cm  # noqa: E402
import asphalt.core._context as _cx  # noqa: E402
import asphalt.core._runner as _rn  # noqa: E402
from asphalt.core import (  # noqa: E402
    CLIApplicationComponent,
    Component,
    add_resource,
    add_teardown_callback,
    context_teardown,
    run_application,
    start_service_task,
)

ENDINGS = [
    "CLI run() returns None", "CLI run() returns 0", "CLI run() returns 5", "CLI run() returns 127", "CLI run() returns 128", "CLI run() returns -1",
    "CLI run() returns 'x'", "CLI run() returns 0.0", "CLI run() returns ''", "CLI run() returns []", "CLI run() returns True",
    "CLI run() raises", "child fails while being created", "child fails in prepare()", "child fails in start()", "root fails in start()",
    "startup times out", "SIGINT during startup", "SIGTERM during startup", "SIGTERM after startup (non-CLI)", "SIGINT after startup (non-CLI)",
    "service task crashes during startup", "service task crashes after startup (non-CLI)", "service task crashes while CLI run() is running",
    "child start() raises a BaseException subclass",
]
RUN_RESULTS = {0: None, 1: 0, 2: 5, 3: 127, 4: 128, 5: -1, 6: "x", 7: 0.0, 8: "", 9: [], 10: True}


def expected_outcome(ending):
    """The statement's outcome table: ('return',) | ('exit', n) | ('raise', cls) | set of admissible ones."""
    if ending in (0, 1):
        return [("return",)]
    if ending == 2:
        return [("exit", 5)]
    if ending == 3:
        return [("exit", 127)]
    if ending in (4, 5, 6, 7, 8, 9):
        return [("exit", 1)]
    if ending == 10:
        return [("exit", 1)]  # True is an int with value 1: SystemExit(1) either way
    if ending == 11:
        return [("raise", "BodyErr")]
    if ending in (12, 13, 14, 15, 16, 17, 18, 24):
        return [("exit", 1)]
    if ending in (19, 20):
        return [("return",)]
    if ending == 21:
        return [("exit", 1), ("raise", "BodyErr")]  # not fixed by the statement: either, teardown still required
    return [("raise", "BodyErr")]


def cfg(tier):
    return (1, 10) if tier == "quick" else (2, 12)


def params(tier):
    D, L = cfg(tier)
    ps = [P("ending", 0, len(ENDINGS) - 1), P("nchild", 0, 2), P("when", 0, 5), P("flaky", 0, 1)]
    for j in range(D):
        ps += [P(f"gap{j}", 0, L), P(f"arm{j}", 0, 5)]
    return ps


class _ResA:
    pass


class _ResB:
    pass


def build_app(ending, nchild, when, log, ctl, flaky=0):
    boom = BodyErr("boom")
    ctl["boom"] = boom

    def td(label):
        log.append(("registered", label))
        add_teardown_callback(lambda: log.append(("td", label)))

    async def atd(label):
        log.append(("registered", label))

        async def cb():
            log.append(("td", label))  # invoked; under a cancelled teardown the checkpoint below is interrupted
            await anyio.sleep(0)

        add_teardown_callback(cb)

    def td_aw(label):
        """A plain callable returning a NON-coroutine awaitable (e.g. pool.close() of some libraries)."""
        log.append(("registered", label))

        class Aw:
            def __await__(self):
                log.append(("awaited", label))
                yield from anyio.sleep(0).__await__()

        def cb():
            log.append(("td", label))
            return Aw()

        add_teardown_callback(cb)

    def td_res(label):
        """A resource with a teardown callback (add_resource(..., teardown_callback=))."""
        log.append(("registered", label))
        # published under TWO types: still one resource with one teardown callback
        add_resource(object(), label.replace(".", "_"), [_ResA, _ResB], teardown_callback=lambda: log.append(("td", label)))

    def td_nested(label):
        """A callback that registers a further callback while the teardown is running."""
        log.append(("registered", label))

        def cb():
            log.append(("td", label))
            log.append(("registered-late", "late-" + label, label))
            add_teardown_callback(lambda: log.append(("td", "late-" + label)))

        add_teardown_callback(cb)

    class Child(Component):
        def __init__(self, idx=0, fail=None, stall=False):
            self.idx, self.fail, self.stall = idx, fail, stall
            if fail == "creating":
                raise boom

        async def prepare(self):
            td(f"child{self.idx}.prepare")
            if self.fail == "preparing":
                raise boom

        @context_teardown
        async def managed(self, label):
            # ONE decorated method shared by all instances of the class: each call registers its own teardown
            log.append(("registered", label))
            yield
            # the second half runs while the root context is being torn down: lookups are still allowed then
            from asphalt.core import get_resource

            got = await get_resource(_ResA, f"child{self.idx}_resource", optional=True)
            if got is None:
                log.append(("td", label + ":resource-not-found-during-teardown"))
            log.append(("td", label))

        async def start(self):
            await self.managed(f"child{self.idx}.managed")
            if ending <= 10 or ending in (19, 20):
                # (endings whose teardown is not cancelled) a service task with a slow start-up, stopped through a callable OBJECT; siblings register
                # their callbacks while it is starting - its place in the reverse order is where start_service_task() RETURNED
                label = f"child{self.idx}.service"
                stop = anyio.Event()

                async def service(*, task_status, label=label, stop=stop):
                    await anyio.sleep(0)
                    await anyio.sleep(0)
                    task_status.started()
                    await stop.wait()
                    log.append(("td", label))

                class StopRequest:
                    def __call__(self, stop=stop):
                        stop.set()

                await start_service_task(service, label, teardown_action=StopRequest())
                log.append(("registered", label))
            await atd(f"child{self.idx}.start1")
            td_res(f"child{self.idx}.resource")
            await anyio.sleep(0)
            if self.fail == "starting":
                raise boom
            if self.fail == "starting-base":
                raise BodyBase("not an Exception")
            if self.stall:
                await anyio.sleep_forever()
            td(f"child{self.idx}.start2")

    async def crasher():
        for _ in range(when):
            await anyio.sleep(0)
        if ending in (22, 23):
            await ctl["started"].wait()
        log.append(("crash",))
        raise boom

    class Mixin:
        def __init__(self):
            for i in range(nchild):
                kw = {}
                if i == nchild - 1:
                    if ending == 12:
                        kw["fail"] = "creating"
                    elif ending == 13:
                        kw["fail"] = "preparing"
                    elif ending == 14:
                        kw["fail"] = "starting"
                    elif ending == 24:
                        kw["fail"] = "starting-base"
                    elif ending == 16:
                        kw["stall"] = True
                self.add_component(f"c{i}", Child, idx=i, **kw)

        async def prepare(self):
            td("root.prepare")
            # a service task publishes a resource on the APPLICATION context through the context object's
            # method (the task's own context is current at that moment)
            posted = anyio.Event()

            async def poster():
                from asphalt.core import current_context

                app_ctx = current_context().parent
                log.append(("registered", "root.viatask"))
                app_ctx.add_resource(object(), "posted_by_task", teardown_callback=lambda: log.append(("td", "root.viatask")))
                posted.set()
                await anyio.sleep_forever()

            await start_service_task(poster, "poster")
            await posted.wait()
            if flaky:
                # a service task whose ASYNC teardown action fails when awaited: the documented fallback is cancellation - the
                # application's ending must not be affected
                async def flaky_service():
                    await anyio.sleep_forever()

                async def failing_stop():
                    await anyio.sleep(0)
                    raise ConnectionError("peer went away while being asked to stop")

                await start_service_task(flaky_service, "flaky", teardown_action=failing_stop)
            if ending <= 10 or ending in (19, 20):
                # (endings whose teardown is not cancelled) a service task with teardown_action=None: it ends by itself once a later-registered
                # callback tells it to, and the teardown waits for it at its place in the reverse order
                drain_stop = anyio.Event()

                async def drain():
                    await drain_stop.wait()
                    await anyio.sleep(0)
                    await anyio.sleep(0)
                    log.append(("td", "root.drain"))

                await start_service_task(drain, "drain", teardown_action=None)
                log.append(("registered", "root.drain"))

                def stop_drain():
                    log.append(("td", "root.drain.stop"))
                    drain_stop.set()

                add_teardown_callback(stop_drain)
                log.append(("registered", "root.drain.stop"))
            td_nested("root.nested")
            td_aw("root.awaitable")
            ctl["started"] = anyio.Event()
            if ending in (21, 22, 23):
                await start_service_task(crasher, "crasher")

        async def start(self):
            td("root.start")
            if ending == 15 or (ending in (12, 13, 14) and nchild == 0):
                raise boom
            if ending == 24 and nchild == 0:
                raise BodyBase("not an Exception")
            if ending == 16 and nchild == 0:
                await anyio.sleep_forever()
            if ending in (17, 18):
                for _ in range(6):
                    await anyio.sleep(0)
            await atd("root.start.async")

    if ending <= 11 or ending == 23:

        class App(Mixin, CLIApplicationComponent):
            async def run(self):
                log.append(("run",))
                ctl["started"].set()
                for _ in range(2):
                    await anyio.sleep(0)
                if ending == 11:
                    raise boom
                if ending == 23:
                    await anyio.sleep(50)
                    return 0
                return RUN_RESULTS[ending]

    else:

        class App(Mixin, Component):
            pass

    return App


@guard
def fn(a, tier):
    D, L = cfg(tier)
    ending = pick(a["ending"], len(ENDINGS))
    nchild = pick(a["nchild"], 3)
    when = pick(a["when"], 6) if ending in (17, 18, 19, 20, 21) else 0
    tape = DeviationTape([(a[f"gap{j}"], a[f"arm{j}"]) for j in range(D)], L)
    log, ctl = [], {}
    flaky = pick(a["flaky"], 2)
    App = build_app(ending, nchild, when, log, ctl, flaky)
    sig = {17: signal.SIGINT, 18: signal.SIGTERM, 19: signal.SIGTERM, 20: signal.SIGINT}.get(ending)
    state = {"sent": False, "ticks": 0}

    def observer(k):
        # inject the signal from outside any task, at a chosen scheduler step
        if sig is None or state["sent"]:
            return
        if ending in (19, 20):
            if _app_started(k):
                state["ticks"] += 1
                if state["ticks"] > when:
                    state["sent"] = symsched.raise_signal(sig)
        else:
            state["ticks"] += 1
            if state["ticks"] > 3 + when:
                state["sent"] = symsched.raise_signal(sig)

    def _app_started(k):
        return ("app_started",) in log

    import logging

    class Recorder(logging.Handler):
        def emit(self, record):
            if record.getMessage() == "Application started":
                log.append(("app_started",))
                if "started" in ctl:
                    ctl["started"].set()

    alog = logging.getLogger("asphalt.core")
    saved = (alog.handlers[:], alog.propagate, alog.level, logging.root.manager.disable)
    alog.handlers[:] = [Recorder()]
    alog.propagate = False
    alog.setLevel(logging.INFO)
    logging.disable(logging.NOTSET)

    outcome = None
    with warnings.catch_warnings(record=True) as w:
        warnings.simplefilter("always")
        try:
            run_application(App, {}, backend="symsched", logging=None, start_timeout=20,
                            backend_options={"chooser": tape, "observers": [observer], "max_steps": 5000})
            outcome = ("return",)
        except SystemExit as e:
            outcome = ("exit", e.code)
        except symsched.Deadlock as e:
            outcome = ("deadlock", str(e)[:100])
        except BaseException as e:  # noqa
            leaves = flatten(e)
            outcome = ("raise", type(leaves[0]).__name__ if len(leaves) == 1 else [type(x).__name__ for x in leaves], e)
    alog.handlers[:], alog.propagate = saved[0], saved[1]
    alog.setLevel(saved[2])
    logging.disable(saved[3])
    log.append(("returned",))
    summary = {"ending": ENDINGS[ending], "children": nchild, "moment": when, "schedule": tape.taken, "outcome": outcome[:2],
               "service_task_whose_async_teardown_action_fails": bool(flaky)}
    if sig is not None and not state["sent"]:
        return OK(summary, nontrivial=False)  # the application ended before the signal could be injected
    registered = [e[1] for e in log if e[0] == "registered"]
    late = {e[2]: e[1] for e in log if e[0] == "registered-late"}
    ran = [e[1] for e in log if e[0] == "td"]
    expected = []
    for label in reversed(registered):
        expected.append(label)
        if label in late:
            expected.append(late[label])  # registered during teardown: runs next
    if sorted(ran) != sorted(expected):
        missing = [x for x in expected if x not in ran]
        return FAIL(f"teardown-callbacks-missing-or-duplicated:{ENDINGS[ending]}", f"expected={expected} ran={ran} missing={missing}", summary)
    if ran != expected:
        return FAIL(f"teardown-order:{ENDINGS[ending]}", f"expected={expected} ran={ran}", summary)
    for e in log:
        if e[0] == "registered" and e[1].endswith(".awaitable") and ("awaited", e[1]) not in log:
            return FAIL(f"awaitable-returned-by-a-teardown-callback-never-awaited:{ENDINGS[ending]}", e[1], summary)
    exp = expected_outcome(ending)
    short = outcome[:2]
    if outcome[0] == "raise" and outcome[1] == "BodyErr" and outcome[2] is not ctl["boom"]:
        if flatten(outcome[2]) != [ctl["boom"]]:
            short = ("raise", "other")
    if short not in exp:
        return FAIL(f"outcome:{ENDINGS[ending]}:got={short}", f"expected one of {exp}", summary)
    if ending in (4, 5, 6, 7, 8, 9) and not any(issubclass(x.category, UserWarning) for x in w):
        return FAIL(f"no-warning-for-invalid-run-result:{ENDINGS[ending]}", "", summary)
    return OK(summary, True)


H = Harness(
    prop="C15",
    name="A-end",
    fn=fn,
    params=params,
    cube=lambda tier: 2,
    title="every way and moment an application can end; components registering sync, async, awaitable-returning and self-extending teardown callbacks",
    bound_text=lambda tier: "ending in {" + "; ".join(ENDINGS) + "} x 0-2 children x moment 0-5 (signal step / crash delay) x with/without a service task whose async teardown action raises when awaited; resources with teardown callbacks are published under two types; FIFO schedule with "
    + ("one deviation within 10 decisions" if tier == "quick" else "two deviations"),
    oracle="every teardown callback registered on the root context ran exactly once, in reverse order, before run_application returned or raised; "
    "outcome per the statement's table (return / SystemExit(n) / SystemExit(1) / the original exception); a UserWarning accompanies invalid run() results",
    outside="real OS signal delivery and process exit status (signals are injected through the model backend's receiver); Windows",
    stubs=STUBS_COMMON + ("signals injected with symsched.raise_signal from a kernel observer (outside any task)", "the end of startup is observed through the runner's own 'Application started' log record"),
)


# ------------------------------------------------------------------------------ A-code (data-symbolic)
def code_params(tier):
    return [P("code", -3, 131)]


class _Stub:
    """Formatting gets constant bodies (CrossHair models repr()/f-strings as fresh symbolic strings)."""

    def __enter__(self):
        self.saved = (_cm.format_component_name, _cm.qualified_name, _cx.callable_name, _cx.qualified_name, _rn.qualified_name, _rn.warn)
        _cm.format_component_name = lambda *a, **k: "component"
        _cm.qualified_name = _cx.qualified_name = _rn.qualified_name = lambda *a, **k: "name"
        _cx.callable_name = lambda *a, **k: "callable"
        self.warned = []
        _rn.warn = lambda *a, **k: self.warned.append(1)
        return self

    def __exit__(self, *exc):
        (_cm.format_component_name, _cm.qualified_name, _cx.callable_name, _cx.qualified_name, _rn.qualified_name, _rn.warn) = self.saved


def code_fn(a, tier):
    code = a["code"]
    log = []

    class App(CLIApplicationComponent):
        async def start(self):
            add_teardown_callback(lambda: log.append("t1"))
            add_teardown_callback(lambda: log.append("t2"))

        async def run(self):
            return code

    with _Stub() as stub:
        try:
            run_application(App, backend="symsched", logging=None)
            out = ("return", None)
        except SystemExit as e:
            out = ("exit", e.code)
        except BaseException as e:  # noqa
            out = ("raise", type(e).__name__)
    summary = {"run_returns": "symbolic int in -3..131"}
    if log != ["t2", "t1"]:
        return FAIL("code:teardown", str(log), summary)
    if code == 0:
        ok = out == ("return", None)
    elif 1 <= code <= 127:
        ok = out[0] == "exit" and out[1] == code and not stub.warned
    else:
        ok = out == ("exit", 1) and len(stub.warned) == 1
    return OK(summary, True) if ok else FAIL("code:exit-status-mapping", "", summary)


CODE = Harness(
    prop="C15",
    name="A-code",
    fn=guard(code_fn),
    params=code_params,
    mode="ds",
    cube=lambda tier: 0,
    title="the CLI result is a symbolic integer flowing through the real run_application up to SystemExit.code",
    bound_text=lambda tier: "run() returns any int in -3..131 (in-range codes stay symbolic on one path; the 0 / 1-127 / out-of-range boundaries are decided by z3)",
    oracle="0 -> plain return; 1..127 -> SystemExit(code) without warning; otherwise SystemExit(1) with exactly one warning; both teardown callbacks ran in reverse order",
    outside="ints beyond -3..131",
    stubs=STUBS_COMMON + ("format_component_name / qualified_name / callable_name stubbed to constants and _runner.warn to a recorder in this harness only",),
    tree_check=False,
    cond_timeout=lambda tier: 200,
)

HARNESSES = [H, CODE]


# ------------------------------------------------------------------------------ A-again
TIMEOUTS = [20, None, 2.5]


def again_params(tier):
    return [P("rv", 0, 2), P("timeout", 0, 2), P("runs", 0, 1)]


@guard
def again_fn(a, tier):
    """Several applications started one after the other from ONE configuration object, with every documented kind of start timeout."""
    rv_kind, tk, runs = pick(a["rv"], 3), pick(a["timeout"], 3), 2 + pick(a["runs"], 2)
    rv = [None, 3, "boom"][rv_kind]
    log = []
    boom = BodyErr("run failed")

    class Kid(Component):
        def __init__(self, label="?"):
            self.label = label

        async def start(self):
            label = self.label
            add_teardown_callback(lambda: log.append(("td", label)))

    class App(CLIApplicationComponent):
        async def start(self):
            add_teardown_callback(lambda: log.append(("td", "app")))

        async def run(self):
            log.append(("run",))
            if rv == "boom":
                raise boom
            return rv

    config = {"components": {"first": {"type": Kid, "label": "first"}, "second": {"type": Kid, "label": "second"}}}
    results = []
    for _ in range(runs):
        log.clear()
        try:
            run_application(App, config, backend="symsched", logging=None, start_timeout=TIMEOUTS[tk], backend_options={"max_steps": 5000})
            outcome = ("return",)
        except SystemExit as e:
            outcome = ("exit", e.code)
        except BaseException as e:  # noqa
            outcome = ("raise", e)
        results.append((outcome, sorted(x[1] for x in log if x[0] == "td"), log.count(("run",))))
    summary = {"run()": ["returns None", "returns 3", "raises"][rv_kind], "start_timeout": TIMEOUTS[tk], "applications_started_from_the_same_config_object": runs}
    exp_outcome = [("return",), ("exit", 3), ("raise", boom)][rv_kind]
    for n_, (outcome, tds, ran) in enumerate(results):
        same = outcome[0] == exp_outcome[0] and (outcome[1:] == exp_outcome[1:] if outcome[0] != "raise" else outcome[1] is boom)
        if not same:
            return FAIL(f"again:outcome-of-application-{n_ + 1}-of-{runs}:timeout={TIMEOUTS[tk]}:got={outcome[:2] if outcome[0] != 'raise' else type(outcome[1]).__name__}",
                        f"expected {exp_outcome[:2]}; results={results!r}", summary)
        if tds != ["app", "first", "second"] or ran != 1:
            return FAIL(f"again:teardown-callbacks-of-application-{n_ + 1}-of-{runs}:timeout={TIMEOUTS[tk]}", f"ran {tds}, run() called {ran} time(s)", summary)
    return OK(summary, True)


AGAIN = Harness(
    prop="C15",
    name="A-again",
    fn=again_fn,
    params=again_params,
    cube=lambda tier: 0,
    title="several applications started from one configuration object; start_timeout an int, a float and None",
    bound_text=lambda tier: "CLI application with two children declared in the configuration; run() returns None / 3 / raises; start_timeout in {20, None, 2.5}; 2-3 runs with the same dict",
    oracle="every run has the documented outcome and runs the teardown callbacks of the root and of both configured children exactly once",
    outside="-",
    stubs=STUBS_COMMON,
)
HARNESSES.append(AGAIN)
