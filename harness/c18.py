"""C18 -- resource_added announces every publication exactly once, on the right context."""
from __future__ import annotations

from .common import FAIL, OK, STUBS_COMMON, Harness, P, guard
from .rhist import T0, T1, Alphabet, decode, max_options, run_history

ALPHA = Alphabet(
    max_ctx=3,
    add=[((T0,), "a", "ok"), ((T0, T1), "a", "ok"), ((T1, T0), "a", "badname"), ((T1,), "a", "none"), ((T1,), "a", "badcb0"), ((T0, T1), "a", "same")],
    fac=[((T0,), "a", False, "ok"), ((T1, T0), "a", True, "ok"), ((T1,), "a", False, "nonetype")],
    look=[(T0, "a", "nowait"), (T1, "a", "await"), (T0, "a", "inject_async")],
    drop=True,
)
ALPHA_T = Alphabet(
    max_ctx=3,
    add=ALPHA.add + [((T0,), "b", "td"), ((T1, T0), "a", "badcb")],
    fac=ALPHA.fac + [((T0,), "b", False, "ok")],
    look=ALPHA.look + [(T0, "b", "shortcut_nowait")],
    drop=True,
)


def cfg(tier):
    return (ALPHA, 3) if tier == "quick" else (ALPHA_T, 3)


ALPHA_4 = Alphabet(max_ctx=2, add=ALPHA.add, fac=ALPHA.fac, look=ALPHA.look, drop=True)


def params(tier):
    alpha, K = cfg(tier)
    return [P(f"o{i}", 0, max_options(alpha) - 1) for i in range(K)]


def _rfn(a, tier, four=False):
    alpha, K = (ALPHA_4, 4) if four else cfg(tier)
    ops = decode(a, alpha, K)
    div, eng = run_history(ops, listen="extra", check_events=True)
    summary = {"history": [o.text() for o in ops],
               "events_per_context": {f"c{m.idx}": len(m.events) for m in eng.model}}
    if div is not None:
        if "C18" in div.classes:
            return FAIL(div.sig, div.detail, summary)
        return OK(summary, nontrivial=False)
    return OK(summary, nontrivial=sum(len(m.events) for m in eng.model) > 0)


rfn = guard(lambda a, tier: _rfn(a, tier, False))

R = Harness(
    prop="C18",
    name="R",
    fn=rfn,
    params=params,
    cube=lambda tier: 1 if tier == "quick" else 2,
    title="R-history with a stream_events listener on every context",
    bound_text=lambda tier: (
        "histories of 3 ops over <=3 contexts: create_child, add_resource (ok single/multi type, invalid name, None value), "
        "add_resource_factory (sync single, async multi, None among types), lookups via nowait/await/inject; a permanent listener on every context plus a "
        "slow one (1-slot queue, never reads, subscribed first) that a `drop` operation cancels in the middle of its stream; "
        "events compared after every step and after the final generating probes"
        if tier == "quick"
        else "histories of 3 ops, plus a second name, a teardown-callback add, a non-callable teardown callback"
    ),
    oracle="per context, the received ResourceEvent sequence (types tuple, name, description, is_factory, source context, topic) equals the "
    "model's: one per successful add / factory registration / first generation, on that context only; none for failed calls and repeat lookups",
    outside="component-remapped default names (C14 harness checks the remapped name itself); >3 contexts",
    stubs=STUBS_COMMON,
)

R4 = Harness(
    prop="C18",
    name="R4",
    fn=guard(lambda a, tier: _rfn(a, tier, True)),
    params=lambda tier: [P(f"o{i}", 0, max_options(ALPHA_4) - 1) for i in range(4)],
    cube=lambda tier: 2,
    tiers=("thorough",),
    title="R-history of FOUR operations over <=2 contexts (the quick alphabet) with listeners",
    bound_text=lambda tier: "histories of 4 ops over <=2 contexts with the quick tier's alphabet",
    oracle=R.oracle,
    outside=R.outside,
    stubs=STUBS_COMMON,
)

HARNESSES = [R, R4]


# ------------------------------------------------------------------------------ G-reuse
import gc  # noqa: E402

import anyio  # noqa: E402

from .common import pick, run  # noqa: E402

from asphalt.core import Context  # noqa: E402


def reuse_params(tier):
    return [P("touch1", 0, 1), P("nested", 0, 1)]


@guard
def reuse_fn(a, tier):
    """Many generations of short-lived contexts, steered onto previously used memory addresses
    (the normal life of per-request contexts in a long-running program)."""
    touch1, nested = pick(a["touch1"], 2), pick(a["nested"], 2)
    out = {"uses": {}, "problems": []}

    async def main():
        async with anyio.create_task_group() as tg:
            async with Context() as root:
                dead = set()
                monitors = []  # (generation, sink): streams that are never closed

                async def listen(ctx, sink, *, task_status):
                    async with ctx.resource_added.stream_events() as stream:
                        task_status.started()
                        async for ev in stream:
                            sink.append(ev)

                for gen in range(40):
                    keep = []
                    ctx = None
                    for _ in range(60):
                        c = Context(root)
                        if not dead or id(c) in dead:
                            ctx = c
                            break
                        keep.append(c)
                    if ctx is None:
                        ctx = Context(root)
                    del keep
                    addr = id(ctx)
                    out["uses"][addr] = out["uses"].get(addr, 0) + 1
                    sink = []
                    before = [len(sk) for _, sk in monitors]
                    async with ctx:
                        if gen % 2 == 0 or touch1:
                            await tg.start(listen, ctx, sink)
                            monitors.append((gen, sink))
                        ctx.add_resource(object(), f"r{gen}", [T0])
                        await anyio.wait_all_tasks_blocked()
                        after = [len(sk) for _, sk in monitors]
                        for (g, sk), b4, af in zip(monitors, before + [0], after):
                            if g != gen and af != b4:
                                out["problems"].append(f"generation {gen}'s publication reached the monitor of dead generation {g}")
                        if sink is monitors[-1][1] and (len(sink) != 1 or sink[0].source is not ctx):
                            out["problems"].append(f"generation {gen}: own listener got {[(e.resource_name, e.source is ctx) for e in sink]}")
                    dead.add(addr)
                    del ctx, c
                    gc.collect()
            tg.cancel_scope.cancel()

    _, exc, _k = run(main)
    reused3 = sum(1 for v in out["uses"].values() if v >= 3)
    summary = {"generations": 40, "addresses_used_three_times_or_more": reused3}
    if exc is not None:
        return FAIL(f"reuse:raised:{type(exc).__name__}", repr(exc), summary)
    if out["problems"]:
        return FAIL("reuse:publication-announced-on-a-dead-contexts-signal-or-with-a-wrong-source", out["problems"][:3], summary)
    return OK(summary, nontrivial=reused3 > 0)


REUSE = Harness(
    prop="C18",
    name="G-reuse",
    fn=reuse_fn,
    params=reuse_params,
    cube=lambda tier: 0,
    title="40 generations of short-lived contexts steered onto previously used memory addresses",
    bound_text=lambda tier: "each generation: allocate until a previously used id() comes back (<=60 tries), enter, attach a monitor that is never closed, publish, leave, collect",
    oracle="every publication reaches only its own generation's listener, with that context as source",
    outside="relies on CPython handing the freed address out again (otherwise the path is counted as trivial)",
    stubs=STUBS_COMMON,
)
HARNESSES.append(REUSE)


# ------------------------------------------------------------------------------ T-closing
CLOSING_OPS = ["add_resource(T0)", "add_resource(T0+T1) with a teardown callback", "first lookup of a factory registered earlier (generation)",
               "add_resource under a taken pair (fails)", "repeat lookup of an existing resource"]


def closing_params(tier):
    return [P("op1", 0, 4), P("op2", 0, 4), P("nested", 0, 1)]


@guard
def closing_fn(a, tier):
    ops = [pick(a["op1"], 5), pick(a["op2"], 5)]
    nested = pick(a["nested"], 2)
    events = []
    expected = []

    async def main():
        async with anyio.create_task_group() as tg:
            async with Context() as outer:
                ctx = Context() if nested else outer
                if nested:
                    await ctx.__aenter__()

                async def listen(*, task_status):
                    async with ctx.resource_added.stream_events() as stream:  # lives OUTSIDE the context's block
                        task_status.started()
                        async for ev in stream:
                            events.append((tuple(ev.resource_types), ev.resource_name, ev.is_factory, ev.source is ctx))

                ctx.add_resource(object(), "taken", [T1])
                ctx.add_resource_factory(lambda: object(), "made", types=[T1])
                await tg.start(listen)

                def during_teardown():
                    for n, op in enumerate(ops):
                        name = f"late{n}"
                        if op == 0:
                            ctx.add_resource(object(), name, [T0])
                            expected.append(((T0,), name, False, True))
                        elif op == 1:
                            ctx.add_resource(object(), name, [T0, T1], teardown_callback=lambda: None)
                            expected.append(((T0, T1), name, False, True))
                        elif op == 2:
                            first = not any(e[1] == "made" for e in expected)
                            ctx.get_resource_nowait(T1, "made")
                            if first:
                                expected.append(((T1,), "made", False, True))
                        elif op == 3:
                            try:
                                ctx.add_resource(object(), "taken", [T0, T1])
                            except Exception:
                                pass
                        else:
                            ctx.get_resource_nowait(T1, "taken")

                ctx.add_teardown_callback(during_teardown)
                if nested:
                    await ctx.__aexit__(None, None, None)
            await anyio.wait_all_tasks_blocked()
            tg.cancel_scope.cancel()

    _, exc, _k = run(main)
    summary = {"inside_a_teardown_callback": [CLOSING_OPS[o] for o in ops], "context": "nested" if nested else "root"}
    if exc is not None:
        return FAIL(f"closing:raised:{type(exc).__name__}", repr(exc), summary)
    if events != expected:
        return FAIL(f"closing:publications-during-teardown-not-announced-exactly-once:got={len(events)}:expected={len(expected)}",
                    f"got {events} expected {expected}", summary)
    return OK(summary, nontrivial=bool(expected))


CLOSING = Harness(
    prop="C18",
    name="T-closing",
    fn=closing_fn,
    params=closing_params,
    cube=lambda tier: 0,
    title="publications made while the context is being torn down, with a listener that lives outside the context's block",
    bound_text=lambda tier: "every sequence of two operations from {" + "; ".join(CLOSING_OPS) + "} inside a teardown callback of a root / nested context",
    oracle="every successful add and first generation is announced exactly once on that context; failed adds and repeat lookups announce nothing",
    outside="-",
    stubs=STUBS_COMMON,
)
HARNESSES.append(CLOSING)


# ------------------------------------------------------------------------------ G-race (scenario shared with C04)
from . import c04 as _c04  # noqa: E402

RACE = Harness(
    prop="C18",
    name="G-race",
    fn=guard(lambda a, tier: _c04._race(a, "quick", None, "C18")),  # both tiers use the quick bound (C04's thorough tier explores the deeper one)
    params=lambda tier: _c04.race_params("quick"),
    cube=lambda tier: _c04.RACE.cube("quick"),
    title="lookups of one (multi-type) async factory racing from several tasks: ONE generation event",
    bound_text=lambda tier: _c04.RACE.bound_text("quick"),
    oracle="exactly one ResourceEvent(is_factory=False) with the factory's types and name is dispatched on the context for the generation, under every "
    "explored interleaving - also when the first attempt raised or its requester was cancelled (the failed attempt announces nothing)",
    outside=_c04.RACE.outside,
    stubs=STUBS_COMMON,
)
HARNESSES.append(RACE)


# ------------------------------------------------------------------------------ K-comp
def kcomp_params(tier):
    return [P("slash", 0, 1), P("phase", 0, 1), P("desc", 0, 1), P("zeroq", 0, 1)]


@guard
def kcomp_fn(a, tier):
    """Publications made by components (module-level shortcuts -> ComponentContext -> application context) are announced on the
    application context with the full payload."""
    from asphalt.core import Component, add_resource, add_resource_factory, start_component

    slash, phase, desc = pick(a["slash"], 2), pick(a["phase"], 2), pick(a["desc"], 2)
    zeroq = pick(a["zeroq"], 2)  # the listener uses max_queue_size=0 (hand-off only) and is waiting again before every publication

    async def settle():
        if zeroq:
            await anyio.wait_all_tasks_blocked()

    d = (lambda text: text) if desc else (lambda text: None)
    events = []
    made = object()
    got_app = []

    app_made = object()

    async def publish():
        await settle()
        # first, an OPTIONAL lookup of a resource whose factory the application registered before the tree was started: generated in, and
        # announced on, the application context
        from asphalt.core import get_resource

        got_app.append(await get_resource(T0, "appfac", optional=True))
        await settle()
        add_resource(object(), types=[T0], description=d("the default-named one"))
        await settle()
        add_resource(object(), "named", [T1, T0], description=d("two types, explicit name"))
        await settle()
        add_resource_factory(lambda: made, "fac", types=[T1], description=d("a factory"))
        await settle()

    class Leaf(Component):
        async def prepare(self):
            if phase == 0:
                await publish()

        async def start(self):
            if phase == 1:
                await publish()

    class Top(Component):
        def __init__(self):
            self.add_component("leaf/special" if slash else "leaf", Leaf)

    async def main():
        async with Context() as ctx, anyio.create_task_group() as tg:
            async def listen(*, task_status):
                async with ctx.resource_added.stream_events(**({"max_queue_size": 0} if zeroq else {})) as stream:
                    task_status.started()
                    async for ev in stream:
                        events.append((tuple(ev.resource_types), ev.resource_name, ev.resource_description, ev.is_factory))

            await tg.start(listen)
            await settle()
            ctx.add_resource_factory(lambda: app_made, "appfac", types=[T0], description=d("registered by the application"))
            await settle()
            await start_component(Top, {}, timeout=None)
            await settle()
            got = ctx.get_resource_nowait(T1, "fac")
            again = ctx.get_resource_nowait(T0, "appfac")  # a mere lookup of what the component already generated: no event
            if again is not app_made or got_app != [app_made]:
                events.append("wrong product of the application's factory")
            await anyio.wait_all_tasks_blocked()
            tg.cancel_scope.cancel()
            if got is not made:
                events.append("wrong factory product")

    _, exc, _k = run(main)
    summary = {"alias": "leaf/special" if slash else "leaf", "published_in": ["prepare()", "start()"][phase], "with_descriptions": bool(desc), "listener_queue": 0 if zeroq else "default"}
    if exc is not None:
        return FAIL(f"kcomp:raised:{type(exc).__name__}", repr(exc), summary)
    default_name = "special" if (slash and phase == 1) else "default"
    exp = [((T0,), "appfac", d("registered by the application"), True), ((T0,), "appfac", d("registered by the application"), False),
           ((T0,), default_name, d("the default-named one"), False), ((T1, T0), "named", d("two types, explicit name"), False),
           ((T1,), "fac", d("a factory"), True), ((T1,), "fac", d("a factory"), False)]
    if events != exp:
        bad = next((i for i, (x, y) in enumerate(zip(events, exp)) if x != y), min(len(events), len(exp)))
        return FAIL(f"kcomp:announcement-{bad}-differs:desc={desc}", f"got {events} expected {exp}", summary)
    return OK(summary, True)


KCOMP = Harness(
    prop="C18",
    name="K-comp",
    fn=kcomp_fn,
    params=kcomp_params,
    cube=lambda tier: 0,
    title="publications made by components through the shortcuts: payload of the announcements on the application context",
    bound_text=lambda tier: "a child component 'leaf' / 'leaf/special' publishes in prepare() or start(): a default-named resource, a two-type explicitly named one and a factory, "
    "with or without descriptions; then the factory's resource is generated from the application context",
    oracle="exactly six events on the application context (incl. the generation triggered by a component's optional lookup of an application factory), in order, carrying the registered types, the (remapped) name, the description and is_factory",
    outside="-",
    stubs=STUBS_COMMON,
)
HARNESSES.append(KCOMP)
