"""C18 -- resource_added announces every publication exactly once, on the right context."""
from __future__ import annotations

from .common import FAIL, OK, STUBS_COMMON, Harness, P, guard
from .rhist import T0, T1, Alphabet, decode, max_options, run_history

ALPHA = Alphabet(
    max_ctx=3,
    add=[((T0,), "a", "ok"), ((T0, T1), "a", "ok"), ((T1, T0), "a", "badname"), ((T1,), "a", "none")],
    fac=[((T0,), "a", False, "ok"), ((T1, T0), "a", True, "ok"), ((T1,), "a", False, "nonetype")],
    look=[(T0, "a", "nowait"), (T1, "a", "await"), (T0, "a", "inject_async")],
    drop=True,
)
ALPHA_T = Alphabet(
    max_ctx=3,
    add=ALPHA.add + [((T0,), "b", "td"), ((T1, T0), "a", "badcb")],
    fac=ALPHA.fac + [((T0,), "b", False, "ok")],
    look=ALPHA.look + [(T0, "b", "shortcut_nowait")],
    drop=True,
)


def cfg(tier):
    return (ALPHA, 3) if tier == "quick" else (ALPHA_T, 4)


def params(tier):
    alpha, K = cfg(tier)
    return [P(f"o{i}", 0, max_options(alpha) - 1) for i in range(K)]


@guard
def rfn(a, tier):
    alpha, K = cfg(tier)
    ops = decode(a, alpha, K)
    div, eng = run_history(ops, listen="extra", check_events=True)
    summary = {"history": [o.text() for o in ops],
               "events_per_context": {f"c{m.idx}": len(m.events) for m in eng.model}}
    if div is not None:
        if "C18" in div.classes:
            return FAIL(div.sig, div.detail, summary)
        return OK(summary, nontrivial=False)
    return OK(summary, nontrivial=sum(len(m.events) for m in eng.model) > 0)


R = Harness(
    prop="C18",
    name="R",
    fn=rfn,
    params=params,
    cube=lambda tier: 1 if tier == "quick" else 2,
    title="R-history with a stream_events listener on every context",
    bound_text=lambda tier: (
        "histories of 3 ops over <=3 contexts: create_child, add_resource (ok single/multi type, invalid name, None value), "
        "add_resource_factory (sync single, async multi, None among types), lookups via nowait/await/inject; a permanent listener on every context plus a "
        "short-lived one that a `drop` operation cancels in the middle of its stream; "
        "events compared after every step and after the final generating probes"
        if tier == "quick"
        else "histories of 4 ops, plus a second name, a teardown-callback add, a non-callable teardown callback"
    ),
    oracle="per context, the received ResourceEvent sequence (types tuple, name, description, is_factory, source context, topic) equals the "
    "model's: one per successful add / factory registration / first generation, on that context only; none for failed calls and repeat lookups",
    outside="component-remapped default names (C14 harness checks the remapped name itself); >3 contexts",
    stubs=STUBS_COMMON,
)

HARNESSES = [R]
