"""C16 -- asphalt run: documented config precedence and deterministic service selection."""
from __future__ import annotations

import copy
import os
import tempfile

import yaml
from click.testing import CliRunner

from .common import FAIL, OK, Harness, P, guard, pick

import asphalt.core._cli as _cli  # noqa: E402


def ref_merge(o, v):
    o = o or {}
    v = v or {}
    out = dict(o)
    for k, val in v.items():
        if isinstance(out.get(k), dict) and isinstance(val, dict):
            out[k] = ref_merge(out[k], val)
        else:
            out[k] = val
    return out


def split_key(key: str):
    """Reference splitter from the statement: dots separate keys unless escaped with a backslash."""
    parts, cur, i = [], "", 0
    while i < len(key):
        c = key[i]
        if c == "\\" and i + 1 < len(key) and key[i + 1] == ".":
            cur += "."
            i += 2
        elif c == ".":
            parts.append(cur)
            cur = ""
            i += 1
        else:
            cur += c
            i += 1
    parts.append(cur)
    return parts


class Unapplicable(Exception):
    pass


def apply_override(config, key, value):
    parts = split_key(key)
    section = config
    for p in parts[:-1]:
        section = section.setdefault(p, {})
        if not isinstance(section, dict):
            raise Unapplicable
    section[parts[-1]] = value


def invoke(files, sets, service, env_service, env_extra=None, secret_text="file-text\n", first_secret=None):
    """Run the real click command in an isolated directory with run_application recorded."""
    calls = []
    saved = _cli.run_application
    _cli.run_application = lambda *a, **k: calls.append((a, k))
    runner = CliRunner()
    env = {"ASPHALT_SERVICE": env_service} if env_service else {"ASPHALT_SERVICE": None}
    env.update(env_extra or {})
    try:
        with tempfile.TemporaryDirectory(prefix="c16_") as d:
            cwd = os.getcwd()
            os.chdir(d)
            try:
                names = []
                for i, text in enumerate(files):
                    with open(f"conf{i}.yml", "w") as f:
                        f.write(text)
                    names.append(f"conf{i}.yml")
                args = ["run"] + names
                for s in sets:
                    args += ["--set", s]
                if service:
                    args += ["--service", service]
                if first_secret is not None:
                    # an earlier invocation in the same process saw other file contents (secrets get rotated)
                    with open("secret.txt", "w") as f:
                        f.write(first_secret)
                    runner.invoke(_cli.main, args, env=env)
                    calls.clear()
                with open("secret.txt", "w") as f:
                    f.write(secret_text)
                result = runner.invoke(_cli.main, args, env=env)
            finally:
                os.chdir(cwd)
    finally:
        _cli.run_application = saved
    text = (result.output or "") + (getattr(result, "stderr", "") if hasattr(result, "stderr_bytes") and result.stderr_bytes is not None else "")
    return result.exit_code, calls, text, result.exception


def expected_call(files_data, sets, service, env_service):
    """Reference pipeline. Returns ('call', type, component_cfg, kwargs) | ('error',)."""
    config = {}
    for d in files_data:
        config = ref_merge(config, copy.deepcopy(d))
    for key, value in sets:
        try:
            apply_override(config, key, value)
        except Unapplicable:
            return ("error",)
    services = config.pop("services", {})
    if "component" in config:
        comp = config.pop("component")
        services.setdefault("default", {"component": comp})
    chosen = service or env_service
    if not services:
        return ("error",)
    if chosen:
        if chosen not in services:
            return ("error",)
        sc = services[chosen]
    elif len(services) == 1:
        sc = next(iter(services.values()))
    elif "default" in services:
        sc = services["default"]
    else:
        return ("error",)
    final = ref_merge(config, sc)
    if "component" not in final or "type" not in final["component"]:
        return ("error",)
    comp = final.pop("component")
    tp = comp.pop("type")
    backend = final.pop("backend", "asyncio")
    bo = final.pop("backend_options", {})
    return ("call", tp, comp, dict(final, backend=backend, backend_options=bo))


# ------------------------------------------------------------------------------ P-precedence
FILE2 = ["absent", "overrides a nested component option and adds a logging section", "replaces a nested dict by a scalar and sets a top-level option",
         "sets a nested key to null", "sets the top-level options `logging` and `max_threads` to null"]
SETS = ["none", "component.opts.x=5", "logging.loggers.a\\.b.level=DEBUG", "max_threads=7", "component.opts.nested.y=[1, 2]", "component.opts={z: 1}",
        "component.opts.x=null", "component.opts.t=!Env C16_VAR", "component.opts.f=!TextFile secret.txt",
        "component.opts.dsn=postgresql://app@db/app?sslmode=require&x=1"]
SET_VALUES = {1: ("component.opts.x", 5), 2: ("logging.loggers.a\\.b.level", "DEBUG"), 3: ("max_threads", 7), 4: ("component.opts.nested.y", [1, 2]),
              5: ("component.opts", {"z": 1}), 6: ("component.opts.x", None), 7: ("component.opts.t", "from-env"),
              8: ("component.opts.f", "file-text\n"), 9: ("component.opts.dsn", "postgresql://app@db/app?sslmode=require&x=1")}
TAGS = ["none", "!Env", "!TextFile", "!BinaryFile", "!Env of a variable that is set to the empty string"]


def prec_params(tier):
    return [P("file2", 0, 4), P("set1", 0, 9), P("set2", 0, 9), P("tag", 0, 4), P("svc", 0, 1), P("triple", 0, 1)]


@guard
def prec_fn(a, tier):
    f2, s1, s2, tag, svc = pick(a["file2"], 5), pick(a["set1"], 10), pick(a["set2"], 10), pick(a["tag"], 5), pick(a["svc"], 2)
    # with both slots empty: optionally THREE overrides - a key, then its parent section as a whole, then the key again (applied strictly in order)
    triple = pick(a["triple"], 2) if (s1 == 0 and s2 == 0) else 0
    tagged_yaml = {0: "plain", 1: "!Env C16_VAR", 2: "!TextFile secret.txt", 3: "!BinaryFile secret.txt", 4: "!Env C16_EMPTY"}[tag]
    tagged_val = {0: "plain", 1: "from-env", 2: "file-text\n", 3: b"file-text\n", 4: ""}[tag]
    comp = {"type": "mod:Cls", "opts": {"x": 1, "nested": {"y": 1, "keep": True}, "tagged": tagged_val}}
    base = {"max_threads": 3, "logging": {"version": 1, "loggers": {"a": {"level": "INFO"}}}}
    comp_yaml = f"  type: mod:Cls\n  opts:\n    x: 1\n    nested: {{y: 1, keep: true}}\n    tagged: {tagged_yaml}\n"
    if svc == 0:
        d1 = dict(base, component=comp)
        y1 = "max_threads: 3\nlogging:\n  version: 1\n  loggers: {a: {level: INFO}}\ncomponent:\n" + comp_yaml
    else:
        # the same component inside the only service; the service section also overrides a top-level option
        d1 = dict(base, services={"web": {"component": comp, "max_threads": 9, "logging": {"loggers": {"svc": {"level": "WARNING"}}}}})
        y1 = "max_threads: 3\nlogging:\n  version: 1\n  loggers: {a: {level: INFO}}\nservices:\n  web:\n    max_threads: 9\n    logging: {loggers: {svc: {level: WARNING}}}\n    component:\n" + "\n".join(
            "    " + ln for ln in comp_yaml.splitlines()) + "\n"
    files, datas = [y1], [d1]
    prefix = "services.web." if svc else ""
    if f2 == 1:
        over = {"component": {"opts": {"nested": {"y": 2}}}}
        datas.append(({"services": {"web": over}} if svc else over) | {"logging": {"loggers": {"b": {"level": "DEBUG"}}}})
    elif f2 == 2:
        over = {"component": {"opts": {"nested": "flat"}}}
        datas.append(({"services": {"web": over}} if svc else over) | {"max_threads": 5})
    elif f2 == 3:
        over = {"component": {"opts": {"nested": None}}}
        datas.append({"services": {"web": over}} if svc else over)
    elif f2 == 4:
        datas.append({"logging": None, "max_threads": None})
    if f2:
        files.append(yaml.safe_dump(datas[-1]))
    sets_txt, sets_val = [], []
    for s in (s1, s2):
        if s:
            k, v = copy.deepcopy(SET_VALUES[s])
            if k.startswith("component"):
                k = prefix + k
            sets_txt.append(f"{k}={SETS[s].split('=', 1)[1]}")
            sets_val.append((k, v))
    if triple:
        for k, v, txt in ((prefix + "component.opts.x", 1, "1"), (prefix + "component.opts", {"z": 1}, "{z: 1}"), (prefix + "component.opts.x", 2, "2")):
            sets_txt.append(f"{k}={txt}")
            sets_val.append((k, v))
    uses_file = tag in (2, 3) or 8 in (s1, s2)
    code, calls, text, exc = invoke(files, sets_txt, None, None, {"C16_VAR": "from-env", "C16_EMPTY": ""}, first_secret="old-text\n" if uses_file else None)
    exp = expected_call(datas, sets_val, None, None)
    summary = {"files": files, "overrides": sets_txt, "tag": TAGS[tag], "component_in": "the only service" if svc else "top level"}
    if exp[0] == "error":
        if code == 0 or calls:
            return FAIL("precedence:error-expected-but-started", f"code={code} calls={calls}", summary)
        return OK(summary, True)
    if code != 0 or len(calls) != 1:
        return FAIL(f"precedence:not-started:code={code}", f"{text} {exc!r}", summary)
    (args, kwargs) = calls[0]
    got = ("call", args[0], args[1], kwargs)
    if got != exp:
        return FAIL(f"precedence:file2={FILE2[f2]}:sets={[SETS[s1], SETS[s2]]}:tag={TAGS[tag]}:svc={svc}", f"got {got} expected {exp}", summary)
    return OK(summary, True)


PREC = Harness(
    prop="C16",
    name="P-precedence",
    fn=prec_fn,
    params=prec_params,
    cube=lambda tier: 2,
    title="files in order, then --set overrides, then service over top level; YAML tags",
    bound_text=lambda tier: "file 1 with a nested component section (top level or inside the only service, whose section also overrides a top-level option); "
    "file 2 in {" + "; ".join(FILE2) + "}; two --set slots each in {" + "; ".join(SETS) + "}; a leaf tagged with {" + ", ".join(TAGS) + "}",
    oracle="the (type, component config, keyword options) handed to run_application equal the reference pipeline of the statement; exactly one start",
    outside="YAML syntax itself; more than 2 files; keys deeper than 4",
    stubs=("asphalt.core._cli.run_application replaced by a recorder; the real click command runs through click.testing.CliRunner in a temporary directory",),
)


# ------------------------------------------------------------------------------ P-service
LAYOUTS = ["no services, no component", "top-level component only", "services: {default}", "services: {web}", "services: {web, worker}",
           "services: {web, worker, default}", "top-level component and services: {web}"]
CHOICES = [None, "web", "worker", "default", "nope"]


def layout_data(i):
    def svc(n):
        return {"component": {"type": f"mod:{n}", "who": n}, "max_threads": {"web": 1, "worker": 2, "default": 4}[n]}

    base = {"max_threads": 3, "logging": {"version": 1}}
    if i == 0:
        return dict(base)
    if i == 1:
        return dict(base, component={"type": "mod:top", "who": "top"})
    if i == 2:
        return dict(base, services={"default": svc("default")})
    if i == 3:
        return dict(base, services={"web": svc("web")})
    if i == 4:
        return dict(base, services={"web": svc("web"), "worker": svc("worker")})
    if i == 5:
        return dict(base, services={"web": svc("web"), "worker": svc("worker"), "default": svc("default")})
    return dict(base, component={"type": "mod:top", "who": "top"}, services={"web": svc("web")})


def svc_params(tier):
    return [P("layout", 0, 6), P("opt", 0, 4), P("env", 0, 4), P("over", 0, 1)]


@guard
def svc_fn(a, tier):
    layout, opt, env, over = pick(a["layout"], 7), pick(a["opt"], 5), pick(a["env"], 5), pick(a["over"], 2)
    d1 = layout_data(layout)
    datas = [d1]
    if over:
        datas.append({"services": {"web": {"component": {"extra": 1}}}} if "services" in d1 else {"logging": {"disable_existing_loggers": False}})
    files = [yaml.safe_dump(d) for d in datas]
    code, calls, text, exc = invoke(files, [], CHOICES[opt], CHOICES[env])
    exp = expected_call(datas, [], CHOICES[opt], CHOICES[env])
    summary = {"layout": LAYOUTS[layout], "--service": CHOICES[opt], "ASPHALT_SERVICE": CHOICES[env], "second_file": bool(over)}
    if exp[0] == "error":
        if code == 0 or calls:
            return FAIL(f"service:error-expected-but-started:{LAYOUTS[layout]}:--service={CHOICES[opt]}:env={CHOICES[env]}", f"code={code} calls={calls}", summary)
        if "rror" not in text and exc is None:
            return FAIL("service:no-error-text", text, summary)
        return OK(summary, True)
    if code != 0 or len(calls) != 1:
        return FAIL(f"service:not-started:{LAYOUTS[layout]}:--service={CHOICES[opt]}:env={CHOICES[env]}:code={code}", f"{text} {exc!r}", summary)
    (args, kwargs) = calls[0]
    got = ("call", args[0], args[1], kwargs)
    if got != exp:
        return FAIL(f"service:wrong-service-or-merge:{LAYOUTS[layout]}:--service={CHOICES[opt]}:env={CHOICES[env]}", f"got {got} expected {exp}", summary)
    return OK(summary, True)


SVC = Harness(
    prop="C16",
    name="P-service",
    fn=svc_fn,
    params=svc_params,
    cube=lambda tier: 1,
    title="service selection ladder over every layout and every combination of --service and ASPHALT_SERVICE",
    bound_text=lambda tier: "layout in {" + "; ".join(LAYOUTS) + "} x --service in {unset, web, worker, default, nope} x ASPHALT_SERVICE likewise x optional second file",
    oracle="--service, else ASPHALT_SERVICE, else the only service, else `default`; otherwise - or if the named service does not exist - non-zero exit, "
    "an error text and nothing started; the selected section is merged over the top-level keys (a top-level `component` defines the implicit "
    "`default` service unless one exists, as the code and its comment define it)",
    outside="-",
    stubs=PREC.stubs,
)


# ------------------------------------------------------------------------------ S-split
ALPH = ["a", "b", ".", "\\"]


def split_params(tier):
    n = 5 if tier == "quick" else 6
    return [P("ln", 1, n)] + [P(f"c{i}", 0, 3) for i in range(n)]


@guard
def split_fn(a, tier):
    n = 5 if tier == "quick" else 6
    ln = 1 + pick(_shift(a["ln"]), n)
    key = "".join(ALPH[pick(a[f"c{i}"], 4)] for i in range(ln))
    base = {"component": {"type": "mod:Cls"}}
    code, calls, text, exc = invoke([yaml.safe_dump(base)], [f"{key}=1"], None, None)
    exp_cfg = {}
    try:
        apply_override(exp_cfg, key, 1)
        exp_err = False
    except Unapplicable:
        exp_err = True
    summary = {"override_key": key, "expected_path": split_key(key)}
    if exp_err:
        return OK(summary, False) if code != 0 else FAIL("split:error-expected", key, summary)
    if code != 0 or len(calls) != 1:
        # top-level keys become keyword arguments of run_application: any str is fine for the recorder
        return FAIL(f"split:not-started:key={key!r}", f"code={code} {text} {exc!r}", summary)
    kwargs = dict(calls[0][1])
    kwargs.pop("backend", None)
    kwargs.pop("backend_options", None)
    if kwargs != exp_cfg:
        return FAIL(f"split:key={key!r}", f"got {kwargs} expected {exp_cfg}", summary)
    return OK(summary, "." in key)


def _shift(v):
    """ln ranges over 1..n; pick() wants 0-based arms."""
    from symkit.choose import is_concrete, resumed

    if is_concrete(v):
        return v - 1
    with resumed():
        return v - 1


SPLIT = Harness(
    prop="C16",
    name="S-split",
    fn=split_fn,
    params=split_params,
    cube=lambda tier: 2,
    title="the --set key splitter on every key over the alphabet {a, b, ., backslash}",
    bound_text=lambda tier: f"every key of length 1..{5 if tier == 'quick' else 6} over 'a', 'b', '.', '\\\\' through the real command line (value 1)",
    oracle="the nested path assigned equals a character-scanning reference splitter (an unescaped dot separates, backslash-dot is a literal dot)",
    outside="other characters; CrossHair's own regex look-behind model is NOT used (measured to be wrong): the real re module runs natively on every path",
    stubs=PREC.stubs,
)


# ------------------------------------------------------------------------------ P-alias
ALIAS_OVERRIDES = ["port only", "a nested credentials key only", "port and a nested credentials key"]


def alias_params(tier):
    return [P("selected", 0, 1), P("target", 0, 1), P("shape", 0, 2), P("style", 0, 1)]


@guard
def alias_fn(a, tier):
    selected, target, shape, style = pick(a["selected"], 2), pick(a["target"], 2), pick(a["shape"], 3), pick(a["style"], 2)
    names = ["server", "client"]
    broker = {"host": "mq.local", "port": 5672, "credentials": {"user": "shared", "password": "s3cret"}}
    second = "*broker" if style == 0 else "{<<: *broker}"
    y1 = ("services:\n  server:\n    component:\n      type: mod:Server\n      broker: &broker\n        host: mq.local\n        port: 5672\n"
          "        credentials: {user: shared, password: s3cret}\n  client:\n    component:\n      type: mod:Client\n      broker: " + second + "\n")
    d1 = {"services": {"server": {"component": {"type": "mod:Server", "broker": copy.deepcopy(broker)}},
                       "client": {"component": {"type": "mod:Client", "broker": copy.deepcopy(broker)}}}}
    over_broker = {}
    if shape in (0, 2):
        over_broker["port"] = 9000
    if shape in (1, 2):
        over_broker["credentials"] = {"user": "only-for-" + names[target]}
    d2 = {"services": {names[target]: {"component": {"broker": over_broker}}}}
    files = [y1, yaml.safe_dump(d2)]
    summary = {"file1": "two services sharing one broker block through a YAML anchor (" + ["plain alias", "merge key <<"][style] + ")",
               "file2_overrides": f"services.{names[target]}.component.broker: {ALIAS_OVERRIDES[shape]}", "--service": names[selected]}
    # the same command line twice in one process, and the other service in between: no run may leak into the next
    for attempt, sel in enumerate((selected, 1 - selected, selected)):
        code, calls, text, exc = invoke(files, [], names[sel], None)
        exp = expected_call([d1, d2], [], names[sel], None)
        if code != 0 or len(calls) != 1:
            return FAIL(f"alias:not-started:code={code}", f"{text} {exc!r}", summary)
        (args, kwargs) = calls[0]
        got = ("call", args[0], args[1], kwargs)
        if got != exp:
            untouched = sel != target
            return FAIL(f"alias:{'override-for-the-other-service-leaked-into-the-selected-one' if untouched else 'override-not-applied-as-a-deep-merge'}:shape={shape}:style={style}:attempt={attempt}",
                        f"got {got} expected {exp}", summary)
    return OK(summary, True)


ALIASH = Harness(
    prop="C16",
    name="P-alias",
    fn=alias_fn,
    params=alias_params,
    cube=lambda tier: 0,
    title="a block shared by two services through a YAML anchor; a later file overrides it for ONE of them",
    bound_text=lambda tier: "file 1: services server/client whose component.broker is one anchored block (plain alias / merge key); file 2 overrides "
    "broker.port and/or broker.credentials.user of one service; --service selects either; the command runs three times in one process (selected, other, selected)",
    oracle="what run_application receives equals the reference pipeline on the expanded (alias-free) documents: the override reaches the addressed service only, as a deep merge",
    outside="--set through an aliased node (the YAML data model makes both paths one node; not judged)",
    stubs=PREC.stubs,
)


# ------------------------------------------------------------------------------ P-nofiles
NOFILE_SETS = [
    [],
    [("component.type", "mod:Comp"), ("component.greeting", "hello"), ("max_threads", 7)],
    [("services.web.component.type", "mod:Web"), ("services.worker.component.type", "mod:Worker"), ("max_threads", 2)],
    [("services.web.component.type", "mod:Web"), ("services.web.max_threads", 4), ("logging.version", 1)],
]


def nofiles_params(tier):
    return [P("sets", 0, 3), P("opt", 0, 2), P("env", 0, 2)]


@guard
def nofiles_fn(a, tier):
    """`asphalt run` without any configuration file: the empty sequence of files merges to {} and the --set overrides / service ladder apply as usual."""
    which, opt, env = pick(a["sets"], 4), pick(a["opt"], 3), pick(a["env"], 3)
    sets_val = NOFILE_SETS[which]
    sets_txt = [f"{k}={v}" for k, v in sets_val]
    service, env_service = [None, "web", "nope"][opt], [None, "worker", "web"][env]
    code, calls, text, exc = invoke([], sets_txt, service, env_service)
    exp = expected_call([], [(k, v) for k, v in sets_val], service, env_service)
    summary = {"files": "none", "overrides": sets_txt, "--service": service, "ASPHALT_SERVICE": env_service}
    if exp[0] == "error":
        if code == 0 or calls:
            return FAIL("nofiles:error-expected-but-started", f"code={code} calls={calls}", summary)
        return OK(summary, True)
    if code != 0 or len(calls) != 1:
        return FAIL(f"nofiles:not-started:code={code}:sets={which}", f"{text} {exc!r}", summary)
    (args, kwargs) = calls[0]
    got = ("call", args[0], args[1], kwargs)
    if got != exp:
        return FAIL(f"nofiles:wrong-configuration:sets={which}", f"got {got} expected {exp}", summary)
    return OK(summary, True)


NOFILES = Harness(
    prop="C16",
    name="P-nofiles",
    fn=nofiles_fn,
    params=nofiles_params,
    cube=lambda tier: 0,
    title="no configuration file at all: everything comes from --set",
    bound_text=lambda tier: "zero files x --set lists {none; a top-level component; two services; one service with a top-level option} x --service {unset, web, nope} x ASPHALT_SERVICE {unset, worker, web}",
    oracle="reference pipeline with an empty list of files: same configuration, same service ladder, same errors",
    outside="-",
    stubs=PREC.stubs,
)


# ------------------------------------------------------------------------------ P-sequence
SEQ_SETS = [[], [("backend_options.debug", True)], [("logging.version", 2), ("backend", "trio")], [("component.opts.x", 9), ("backend_options.use_uvloop", False)]]
SEQ_TXT = [[], ["backend_options.debug=true"], ["logging.version=2", "backend=trio"], ["component.opts.x=9", "backend_options.use_uvloop=false"]]


def seq_params(tier):
    return [P("r0", 0, 3), P("r1", 0, 3), P("r2", 0, 3), P("file_has", 0, 1)]


@guard
def seq_fn(a, tier):
    """Several `asphalt run` invocations in one process: each one's configuration depends on its own files and overrides only."""
    import importlib

    picks = [pick(a["r0"], 4), pick(a["r1"], 4), pick(a["r2"], 4)]
    file_has = pick(a["file_has"], 2)
    # every explored path starts from a freshly loaded command module, so that a path's verdict depends on its own three invocations only
    # (module-level state written by an earlier PATH of the same worker process would not reproduce in the native replay)
    importlib.reload(_cli)
    base = {"component": {"type": "mod:Cls", "opts": {"x": 1}}, "logging": {"version": 1}}
    if file_has:
        base["backend_options"] = {"debug": False}
    files = [yaml.safe_dump(base)]
    summary = {"invocations": [SEQ_TXT[i] for i in picks], "file_defines_backend_options": bool(file_has)}
    for n_, i in enumerate(picks):
        code, calls, text, exc = invoke(files, SEQ_TXT[i], None, None)
        exp = expected_call([base], copy.deepcopy(SEQ_SETS[i]), None, None)
        if code != 0 or len(calls) != 1:
            return FAIL(f"sequence:invocation-{n_ + 1}-not-started:code={code}", f"{text} {exc!r}", summary)
        (args, kwargs) = calls[0]
        got = ("call", args[0], args[1], kwargs)
        if got != exp:
            return FAIL(f"sequence:invocation-{n_ + 1}-got-a-configuration-that-is-not-its-own:earlier={[SEQ_TXT[j] for j in picks[:n_]]}", f"got {got} expected {exp}", summary)
    return OK(summary, True)


SEQ = Harness(
    prop="C16",
    name="P-sequence",
    fn=seq_fn,
    params=seq_params,
    cube=lambda tier: 0,
    title="three invocations in one process with different --set overrides (incl. nested backend_options keys)",
    bound_text=lambda tier: "one file (with / without a backend_options section); each of three invocations uses one of the override lists " + "; ".join(str(x) for x in SEQ_TXT),
    oracle="what run_application receives in every invocation equals the reference pipeline applied to THAT invocation's files and overrides",
    outside="-",
    stubs=PREC.stubs,
)

HARNESSES = [PREC, SVC, SPLIT, ALIASH, NOFILES, SEQ]
