"""C03 -- One resource per (type, name) per context; failed adds change nothing."""
from __future__ import annotations

from .common import FAIL, OK, STUBS_COMMON, Harness, P, guard, run
from .rhist import T0, T1, Alphabet, decode, max_options, run_history

from asphalt.core import AsyncResourceError, Context, ResourceConflict  # noqa: E402
import asphalt.core._context as _ctxmod  # noqa: E402

ALPHA = Alphabet(
    max_ctx=2,
    add=[
        ((T0,), "a", "td"),
        ((T1,), "a", "td"),
        ((T0, T1), "a", "td"),
        ((T1, T0), "a", "none"),
        ((T1, T0), "a", "badname"),
        ((T1, T0), "a", "badcb"),
        ((T1, T0), "a", "badcb0"),
        ((T1, T0), "a", "badtypes"),
    ],
    fac=[((T0,), "a", False, "ok"), ((T1, T0), "a", False, "ok"), ((T1, T0), "a", False, "badname"), ((T1, T0), "a", False, "nonetype")],
    look=[(T0, "a", "nowait"), (T1, "a", "nowait")],
    leave=False,
    drop=True,
)
ALPHA_T = Alphabet(max_ctx=2, add=ALPHA.add, fac=ALPHA.fac, look=[(T0, "a", "nowait"), (T1, "a", "await")], leave=True)


def cfg(tier):
    return (ALPHA, 3) if tier == "quick" else (ALPHA_T, 4)


def params(tier):
    alpha, K = cfg(tier)
    return [P(f"o{i}", 0, max_options(alpha) - 1) for i in range(K)]


@guard
def rfn(a, tier):
    alpha, K = cfg(tier)
    ops = decode(a, alpha, K)
    div, eng = run_history(ops, listen="extra", check_events=True, check_teardown=True)
    summary = {"history": [o.text() for o in ops], "views_compared": eng.compared}
    if div is not None:
        if "C03" in div.classes:
            return FAIL(div.sig, div.detail, summary)
        return OK(summary, nontrivial=False)
    return OK(summary, nontrivial=any(o.kind in ("add", "fac") for o in ops))


R = Harness(
    prop="C03",
    name="R",
    fn=rfn,
    params=params,
    cube=lambda tier: 1 if tier == "quick" else 2,
    title="R-history with conflicting and invalid adds: partial function, identity stability, atomic failure",
    bound_text=lambda tier: (
        "histories of 3 ops over <=2 contexts; add_resource(T0|T1|T0+T1 with teardown callback; T1+T0 with value None / invalid name / "
        "non-callable teardown_callback (truthy and falsy ones) / invalid type), add_resource_factory(T0 | T1+T0 | invalid name | None among types), lookups; "
        "then generating probes and closing of all contexts"
        if tier == "quick"
        else "histories of 4 ops over <=2 contexts; the quick alphabet plus await lookups and leave(child)"
    ),
    oracle="raises exactly the expected exception (ResourceConflict iff a requested pair is taken; ValueError/TypeError for invalid input); "
    "after every step every context's table equals the model's, in which a failed call changes nothing; returned objects are stable per pair; "
    "teardown log at close == callbacks of successful adds only, LIFO; listeners saw one event per successful call only",
    outside="longer histories; >2 contexts; names other than two fixed ones (see N-names)",
    stubs=STUBS_COMMON,
)


# ------------------------------------------------------------------ N-names (data-symbolic)
ALPHABET = "aZ9_ -.é"


def _ref_valid(name: str) -> bool:
    """Reference predicate from the documentation: non-empty, only alphanumerics and underscores."""
    if len(name) == 0:
        return False
    for ch in name:
        if not (ch.isalnum() or ch == "_"):
            return False
    return True


def names_fn(a, tier):
    """Lemma, fully symbolic: resource_name_re.fullmatch(name) <=> reference predicate, for
    ANY unicode string up to the length bound (CrossHair models the regex in z3's theory)."""
    name = a["name"]
    got = _ctxmod.resource_name_re.fullmatch(name) is not None
    exp = _ref_valid(name)
    return FAIL("name-rule:regex-vs-documented-predicate", f"name={name!r}") if got != exp else OK({"name": "symbolic str"}, True)


def names_params(tier):
    return [P("name", type="str", maxlen=2 if tier == "quick" else 3)]


NAMES = Harness(
    prop="C03",
    name="N-lemma",
    fn=names_fn,
    params=names_params,
    mode="ds",
    cube=lambda tier: 0,
    title="name rule lemma: the compiled resource_name_re accepts exactly non-empty alphanumeric/underscore strings",
    bound_text=lambda tier: f"any str with len <= {2 if tier == 'quick' else 3} (all of Unicode, as modelled by CrossHair/z3's string theory)",
    oracle="fullmatch(name) is not None  <=>  name != '' and all(c.isalnum() or c == '_')",
    outside="longer names; CrossHair's regex/isalnum models are trusted for 'confirmed' (counterexamples are replayed natively)",
    cond_timeout=lambda tier: 120 if tier == "quick" else 900,
    tree_check=False,
)


def e2e_params(tier):
    n = 2 if tier == "quick" else 3
    return [P("ln", 0, n)] + [P(f"ch{i}", 0, len(ALPHABET) - 1) for i in range(n)] + [P("api", 0, 1)]


@guard
def e2e_fn(a, tier):
    from .common import pick

    n = 2 if tier == "quick" else 3
    ln = pick(a["ln"], n + 1)
    name = "".join(ALPHABET[pick(a[f"ch{i}"], len(ALPHABET))] for i in range(ln))
    api = pick(a["api"], 2)
    out = {}

    async def main():
        async with Context() as ctx:
            try:
                if api == 0:
                    ctx.add_resource(object(), name, types=[T0])
                else:
                    ctx.add_resource_factory(lambda: object(), name, types=[T0])
                out["raised"] = None
            except Exception as e:
                out["raised"] = e
            out["names"] = sorted(ctx.get_resources(T0))
            if api == 1 and out["raised"] is None:
                ctx.get_resource_nowait(T0, name)
                out["names"] = sorted(ctx.get_resources(T0))

    _, exc, _k = run(main)
    if exc is not None:
        raise exc
    valid = _ref_valid(name)
    summary = {"name": name, "api": "add_resource" if api == 0 else "add_resource_factory"}
    if valid:
        if out["raised"] is not None:
            return FAIL(f"name-rule:valid-name-rejected:{name!r}", repr(out["raised"]), summary)
        if out["names"] != [name]:
            return FAIL(f"name-rule:stored-under-other-name:{name!r}", out["names"], summary)
    else:
        if not isinstance(out["raised"], ValueError):
            return FAIL(f"name-rule:invalid-name-accepted:{name!r}:api={api}", repr(out["raised"]), summary)
        if out["names"]:
            return FAIL(f"name-rule:invalid-name-left-state:{name!r}", out["names"], summary)
    return OK(summary, True)


E2E = Harness(
    prop="C03",
    name="N-e2e",
    fn=e2e_fn,
    params=e2e_params,
    cube=lambda tier: 1,
    title="names assembled from character selectors through the real add_resource / add_resource_factory",
    bound_text=lambda tier: f"names of length <= {2 if tier == 'quick' else 3} over the alphabet {ALPHABET!r} x {{add_resource, add_resource_factory}}",
    oracle="ValueError and nothing stored iff the name is empty or has a non-word character; valid names stored under exactly that name",
    outside="other characters (covered by the lemma), longer names",
    stubs=STUBS_COMMON,
)

HARNESSES = [R, NAMES, E2E]


# ------------------------------------------------------------------ add racing a generation
import anyio  # noqa: E402

from .common import Tape, pick  # noqa: E402
from .rhist import Val  # noqa: E402


def addrace_params(tier):
    S = 5 if tier == "quick" else 8
    return [P("fsteps", 0, 4), P("delay", 0, 3), P("api", 0, 1)] + [P(f"s{i}", 0, 3) for i in range(S)]


def _addrace(a, tier, prop="C03"):
    S = 5 if tier == "quick" else 8
    fsteps, delay, api = pick(a["fsteps"], 5), pick(a["delay"], 4), pick(a["api"], 2)
    # fsteps 3 / 4: no second task - a SYNCHRONOUS factory itself publishes the static T1 while it runs under get_resource_nowait / get_resource
    reentrant = max(0, fsteps - 2)
    tape = Tape([a[f"s{i}"] for i in range(S)])
    seen = {}

    async def factory():
        for _ in range(fsteps):
            await anyio.sleep(0)
        return Val("generated")

    async def main():
        async with Context() as ctx:
            static = Val("static")
            if reentrant:

                def sfactory():
                    try:
                        ctx.add_resource(static, "x", types=[T1])
                        seen["added"] = True
                    except ResourceConflict:
                        seen["added"] = False
                    return Val("generated")

                ctx.add_resource_factory(sfactory, "x", types=[T0, T1])
                seen["gen"] = ctx.get_resource_nowait(T0, "x") if reentrant == 1 else await ctx.get_resource(T0, "x")
                seen["first_T1"] = ctx.get_resource_nowait(T1, "x")
            else:
                ctx.add_resource_factory(factory, "x", types=[T0, T1])

            async def getter():
                seen["gen"] = await ctx.get_resource(T0, "x") if api == 0 else await ctx.get_resource(T1, "x")

            async def adder():
                for _ in range(delay):
                    await anyio.sleep(0)
                try:
                    ctx.add_resource(static, "x", types=[T1])
                    seen["added"] = True
                except ResourceConflict:
                    seen["added"] = False
                seen["first_T1"] = ctx.get_resource_nowait(T1, "x") if (seen["added"] or "gen" in seen) else None

            if not reentrant:
                async with anyio.create_task_group() as tg:
                    tg.start_soon(getter)
                    tg.start_soon(adder)
            seen["later_T1"] = [ctx.get_resource_nowait(T1, "x"), await ctx.get_resource(T1, "x"), ctx.get_resources(T1).get("x")]
            seen["later_T0"] = await ctx.get_resource(T0, "x")
            seen["static"] = static
            async with Context() as child:
                seen["child_all"] = dict(child.get_resources(T1))
                try:
                    seen["child_nowait"] = child.get_resource_nowait(T1, "x")
                except AsyncResourceError as e:
                    seen["child_nowait"] = e

    _, exc, _k = run(main, chooser=tape)
    summary = {"factory": ["async, %d checkpoints" % fsteps, "sync, adds the static T1 itself while running under get_resource_nowait(T0)",
                           "sync, adds the static T1 itself while running under await get_resource(T0)"][reentrant], "adder_delay": delay, "getter_type": ["T0", "T1"][api], "schedule": tape.taken,
               "static_add_succeeded": seen.get("added")}
    if exc is not None:
        return FAIL(f"addrace:raised:{type(exc).__name__}", repr(exc), summary)
    if prop == "C02" and seen["added"]:
        # a static resource that was successfully added is inherited by a child created afterwards, on every lookup path
        if seen["child_all"] != {"x": seen["static"]} or seen["child_nowait"] is not seen["static"]:
            return FAIL("addrace:child-does-not-inherit-the-static-resource-added-during-a-generation",
                        f"child.get_resources={seen['child_all']!r} child.get_resource_nowait={seen['child_nowait']!r}", summary)
    first = seen.get("first_T1")
    if seen["added"] and first is not seen["static"]:
        return FAIL("addrace:static-not-returned-after-successful-add", repr(first), summary)
    if first is not None and any(x is not first for x in seen["later_T1"]):
        return FAIL("addrace:identity-changed-after-generation-finished", f"first={first!r} later={seen['later_T1']!r}", summary)
    if not isinstance(seen["later_T0"], Val) or seen["later_T0"].label != "generated":
        return FAIL("addrace:generated-not-under-its-free-type", repr(seen["later_T0"]), summary)
    return OK(summary, True)


@guard
def addrace_fn(a, tier):
    return _addrace(a, tier, "C03")


ADDRACE = Harness(
    prop="C03",
    name="G-addrace",
    fn=addrace_fn,
    params=addrace_params,
    cube=lambda tier: 3,
    title="a static add_resource racing with an in-flight async multi-type generation",
    bound_text=lambda tier: f"async factory for (T0,T1) awaiting 0-2 checkpoints; one task awaits get_resource(T0|T1), another adds a static T1 after 0-3 "
    f"checkpoints and looks it up; first {5 if tier == 'quick' else 8} scheduling decisions arbitrary; plus the re-entrant variants: a synchronous (T0,T1) "
    "factory that publishes the static T1 itself while it runs under get_resource_nowait(T0) / await get_resource(T0)",
    oracle="whatever (T1,'x') first resolved to is what every later lookup path returns; a successful add is what lookups return; the generated "
    "object stays available under its free type",
    outside="more tasks; factories that raise",
    stubs=STUBS_COMMON,
)
HARNESSES.append(ADDRACE)


# ------------------------------------------------------------------ retry after a failed generation
from . import c04 as _c04  # noqa: E402


def retry_params(tier):
    return [p for p in _c04.race_params(tier) if p.name != "failfirst"] + [P("abandon", 0, 1)]


@guard
def retry_fn(a, tier):
    res = _c04._race(a, tier, 1 + pick(a["abandon"], 2))
    if res.ok:
        return res
    # C03's clause: one resource per pair, every lookup returns the same object - read as a total-correctness statement: a
    # lookup of a resolvable pair that never returns (a waiter left behind an abandoned generation) does not "return that same object"
    if res.sig.startswith(("race:different-objects", "race:lookup-failed", "unexpected-exception", "did-not-finish")):
        return res
    return OK(res.summary, nontrivial=False)


RETRY = Harness(
    prop="C03",
    name="G-retry",
    fn=retry_fn,
    params=retry_params,
    cube=lambda tier: 5 if tier == "quick" else 6,
    title="several tasks waiting behind a generation that fails: the retry must still yield ONE object for the pair",
    bound_text=lambda tier: "as C04 G-race with the first generation attempt raising, or its requester cancelled while the factory is awaited (3 tasks in the quick tier)",
    oracle="every successful lookup of the pair (racing or later) returns the same object; no lookup of an available resource fails",
    outside="as C04 G-race",
    stubs=STUBS_COMMON,
)
HARNESSES.append(RETRY)


# ------------------------------------------------------------------ adds made during teardown
CLOSING_OPS = ["add_resource(T0)", "add_resource(T0, teardown_callback=cb)", "add_resource(T0+T1, teardown_callback=cb) conflicting on T1",
               "add_resource(T0, invalid name, teardown_callback=cb)", "add_resource_factory(T0)"]


def closing_params(tier):
    return [P("op1", 0, 4), P("op2", 0, 4), P("nested", 0, 1)]


@guard
def closing_fn(a, tier):
    ops = [pick(a["op1"], 5), pick(a["op2"], 5)]
    nested = pick(a["nested"], 2)
    log = []
    problems = []

    def view(ctx):
        return (dict(ctx.get_resources(T0)), dict(ctx.get_resources(T1)))

    async def main():
        async with Context() as outer:
            ctx = Context() if nested else outer
            if nested:
                await ctx.__aenter__()
            ctx.add_resource(object(), "taken", [T1])

            def during_teardown():
                for n, op in enumerate(ops):
                    before = view(ctx)
                    name = f"late{n}"
                    cb = lambda n=n: log.append(("late-td", n))  # noqa: E731
                    try:
                        if op == 0:
                            ctx.add_resource(object(), name, [T0])
                        elif op == 1:
                            ctx.add_resource(object(), name, [T0], teardown_callback=cb)
                        elif op == 2:
                            ctx.add_resource(object(), "taken", [T0, T1], teardown_callback=cb)
                        elif op == 3:
                            ctx.add_resource(object(), "not valid", [T0], teardown_callback=cb)
                        else:
                            ctx.add_resource_factory(lambda: object(), name, types=[T0])
                        raised = None
                    except Exception as e:
                        raised = e
                    after = view(ctx)
                    expect_fail = op in (2, 3, 4)
                    if expect_fail and raised is None:
                        problems.append((f"closing:{CLOSING_OPS[op]}:accepted", ""))
                    if not expect_fail and raised is not None:
                        problems.append((f"closing:{CLOSING_OPS[op]}:refused:{type(raised).__name__}", f"and the context {'changed' if after != before else 'did not change'}: {raised!r}"))
                    if raised is not None and after != before:
                        problems.append((f"closing:{CLOSING_OPS[op]}:raised-{type(raised).__name__}-but-changed-the-context", f"{before} -> {after}"))
                    if raised is None and op in (0, 1) and name not in after[0]:
                        problems.append((f"closing:{CLOSING_OPS[op]}:no-effect", ""))

            ctx.add_teardown_callback(during_teardown)
            if nested:
                await ctx.__aexit__(None, None, None)

    _, exc, _k = run(main)
    summary = {"inside_a_teardown_callback": [CLOSING_OPS[o] for o in ops], "context": "nested" if nested else "root"}
    if problems:
        return FAIL(problems[0][0], problems[0][1], summary)
    if exc is not None:
        return FAIL(f"closing:raised:{type(exc).__name__}", repr(exc), summary)
    want = [("late-td", n) for n in reversed(range(2)) if ops[n] == 1]
    if log != want:
        return FAIL("closing:late-teardown-callbacks", f"ran {log}, expected {want}: a failed add must not schedule its callback, a successful one must", summary)
    return OK(summary, True)


CLOSING = Harness(
    prop="C03",
    name="T-closing",
    fn=closing_fn,
    params=closing_params,
    cube=lambda tier: 0,
    title="adds made while the context is being torn down (inside a teardown callback)",
    bound_text=lambda tier: "every sequence of two operations from {" + "; ".join(CLOSING_OPS) + "} inside a teardown callback of a root / nested context",
    oracle="valid adds succeed and their teardown callbacks run (LIFO) in the same teardown; a call that raises leaves get_resources() unchanged and schedules nothing",
    outside="-",
    stubs=STUBS_COMMON,
)
HARNESSES.append(CLOSING)


# ------------------------------------------------------------------ parameterised generics as resource types
ALIASES = ["list[int]", "dict[str, int]", "int | str", "typing.Optional[int]"]


def alias_params(tier):
    return [P("alias", 0, 3), P("how", 0, 2), P("child", 0, 1)]


@guard
def alias_fn(a, tier):
    import typing

    al, how, child = pick(a["alias"], 4), pick(a["how"], 3), pick(a["child"], 2)
    mk = lambda: eval(ALIASES[al], {"typing": typing})  # noqa: E731 - every evaluation gives an equal but NOT identical alias object
    out = {}

    async def main():
        async with Context() as parent:
            value = Val("registered-under-an-alias")
            made = []

            def factory():
                made.append(1)
                return value

            if how == 0:
                parent.add_resource(value, "x", mk())
            elif how == 1:
                parent.add_resource(value, "x", [mk()])
            else:
                parent.add_resource_factory(factory, "x", types=[mk()])
            ctx = parent
            if child:
                ctx = Context()
                await ctx.__aenter__()
            out["nowait"] = ctx.get_resource_nowait(mk(), "x")
            out["await"] = await ctx.get_resource(mk(), "x")
            out["all"] = dict(ctx.get_resources(mk()))
            try:
                ctx.add_resource(Val("second"), "x", mk())
                out["conflict"] = None
            except Exception as e:
                out["conflict"] = type(e).__name__
            out["after"] = ctx.get_resource_nowait(mk(), "x")
            out["made"] = len(made)
            out["value"] = value
            if child:
                await ctx.__aexit__(None, None, None)

    _, exc, _k = run(main)
    summary = {"type": ALIASES[al], "registered_by": ["add_resource(types=alias)", "add_resource(types=[alias])", "add_resource_factory(types=[alias])"][how],
               "looked_up_in": "child context" if child else "same context"}
    if exc is not None:
        return FAIL(f"alias:raised:{type(exc).__name__}:{ALIASES[al]}", repr(exc), summary)
    v = out["value"]
    if out["nowait"] is not v or out["await"] is not v or out["after"] is not v:
        return FAIL(f"alias:pairwise-lookups-differ:{ALIASES[al]}", f"{out}", summary)
    if out["all"] != {"x": v}:
        return FAIL(f"alias:get_resources-disagrees-with-the-pairwise-lookups:{ALIASES[al]}", f"get_resources -> {out['all']}", summary)
    if out["conflict"] != "ResourceConflict":
        return FAIL(f"alias:second-add-under-an-equal-alias-not-refused:{ALIASES[al]}", out["conflict"], summary)
    if how == 2 and out["made"] != 1:
        return FAIL("alias:factory-calls", out["made"], summary)
    return OK(summary, True)


ALIAS = Harness(
    prop="C03",
    name="T-alias",
    fn=alias_fn,
    params=alias_params,
    cube=lambda tier: 0,
    title="parameterised generics and unions as resource types: every evaluation of the alias is an equal but distinct object",
    bound_text=lambda tier: "type in {" + ", ".join(ALIASES) + "} x registered as resource / list of types / factory x looked up in the same / a child context",
    oracle="all lookup paths, each with a freshly evaluated alias, return the registered object; a second add under an equal alias raises ResourceConflict",
    outside="-",
    stubs=STUBS_COMMON,
)
HARNESSES.append(ALIAS)


# ------------------------------------------------------------------------------ J-race (scenario shared with C19)
def _jrace_fn(a, tier):
    from . import c19 as _c19

    return _c19._race(a, tier, 0)


def _jrace_params(tier):
    from . import c19 as _c19

    return _c19.race_params(tier)


JRACE = Harness(
    prop="C03",
    name="J-race",
    fn=guard(_jrace_fn),
    params=_jrace_params,
    cube=lambda tier: 3,
    title="one injected coroutine function called concurrently from two contexts: the pair resolves to the context's own object on the injected path too",
    bound_text=lambda tier: "as C19 J-race: two tasks in two contexts call the same @inject coroutine function with two injected parameters (the first static / sync-factory / async-factory, "
    "the second from an async factory awaiting 0-2 checkpoints) under arbitrary schedule prefixes",
    oracle="the object injected for a pair is the object every other lookup of that pair in the same context returns",
    outside="more than two concurrent calls",
    stubs=STUBS_COMMON,
)
HARNESSES.append(JRACE)


# ------------------------------------------------------------------------------ T-closing-look (scenario shared with C02 K-closing)
def _tcl_fn(a, tier):
    from . import c02 as _c02

    return _c02._closing(a, tier, "C03")


def _tcl_params(tier):
    from . import c02 as _c02

    return _c02.closing_params(tier)


TCL = Harness(
    prop="C03",
    name="T-closing-look",
    fn=guard(_tcl_fn),
    params=_tcl_params,
    cube=lambda tier: 0,
    title="a pair resolved through a factory while the context was open is looked up again from its teardown callbacks",
    bound_text=lambda tier: "as C02 K-closing: sync / async factory used once while open; during teardown (callback / @context_teardown) the pair is looked up through get_resource, "
    "get_resource_nowait and get_resources",
    oracle="every lookup made during teardown returns the object the first lookup returned ('until the context is closed')",
    outside="-",
    stubs=STUBS_COMMON,
)
HARNESSES.append(TCL)
