"""R-history engine shared by C02, C03, C04 and C18.

A history of K operations over a small tree of real contexts is decoded from symbolic
choice integers (pure decoding, before anything runs), executed against the real asphalt
API -- every context lives in its own "actor" task, so that current_context(), the
module-level shortcuts and @inject work naturally -- and compared step by step with a
reference model written from the property statements.  The first divergence ends the run
and is classified by the property clauses it contradicts; a property's harness fails only
on divergences of its own classes (so a C03 defect does not raise a C02 alarm).
"""
from __future__ import annotations

from dataclasses import dataclass, field
from typing import Any, Optional

import anyio

from .common import CbErr, pick, run  # noqa: F401

from asphalt.core import (  # noqa: E402
    AsyncResourceError,
    Context,
    ResourceConflict,
    ResourceNotFound,
    current_context,
    get_resource,
    get_resource_nowait,
    get_resources,
    inject,
    resource,
)


class T0:
    pass


class T1:
    pass


TYPES = (T0, T1)
TNAME = {T0: "T0", T1: "T1"}


class Val:
    def __init__(self, label):
        self.label = label

    def __repr__(self):
        return f"<{self.label}>"


@dataclass
class Op:
    kind: str  # create | add | fac | look | leave
    ctx: int = 0
    types: tuple = ()
    name: str = "a"
    variant: str = "ok"
    api: str = "nowait"
    is_async: bool = False

    def text(self):
        t = "+".join(TNAME[x] for x in self.types)
        if self.kind == "create":
            return f"create_child(parent=c{self.ctx})" + (" [constructed now, entered after the next operation]" if self.variant == "deferred" else "")
        if self.kind == "visit":
            return f"in c{self.ctx}'s task: enter and leave a Context(explicit parent=c0)"
        if self.kind == "add":
            return f"c{self.ctx}.add_resource({t},{self.name!r},{self.variant})"
        if self.kind == "fac":
            return f"c{self.ctx}.add_resource_factory({t},{self.name!r},{'async' if self.is_async else 'sync'},{self.variant})"
        if self.kind == "look":
            return f"c{self.ctx}.lookup({t},{self.name!r},via={self.api})"
        if self.kind == "drop":
            return f"cancel the short-lived listener of c{self.ctx} inside its stream"
        return f"leave(c{self.ctx})"


@dataclass
class Alphabet:
    """What a step may be, as a function of the number of live contexts."""

    max_ctx: int = 3
    add: list = field(default_factory=list)  # [(types, name, variant)]
    fac: list = field(default_factory=list)  # [(types, name, is_async, variant)]
    look: list = field(default_factory=list)  # [(type, name, api)]
    leave: bool = False
    drop: bool = False
    visit: bool = False
    deferred: bool = False

    def options(self, n_ctx: int, live: list) -> list:
        out = []
        if n_ctx < self.max_ctx:
            for p in live:
                out.append(Op("create", p))
                if self.deferred:
                    out.append(Op("create", p, variant="deferred"))
        for c in live:
            for types, name, variant in self.add:
                out.append(Op("add", c, types, name, variant))
            for types, name, is_async, variant in self.fac:
                out.append(Op("fac", c, types, name, variant, is_async=is_async))
            for t, name, api in self.look:
                out.append(Op("look", c, (t,), name, api=api))
            if self.drop:
                out.append(Op("drop", c))
            if self.visit:
                out.append(Op("visit", c))
        if self.leave and len(live) > 1:
            out.append(Op("leave", live[-1]))
        return out


def decode(a, alphabet: Alphabet, K: int) -> list:
    """Pure decoding of the symbolic choice integers o0..o{K-1} into operations."""
    ops = []
    n_ctx = 1
    live = [0]
    pending = None  # index of a constructed-but-not-yet-entered context
    for i in range(K):
        opts = alphabet.options(n_ctx, live) if pending is None else [o for o in alphabet.options(n_ctx, live) if o.kind != "create"]
        op = opts[pick(a[f"o{i}"], len(opts))]
        ops.append(op)
        if pending is not None:
            live.append(pending)
            pending = None
        if op.kind == "create":
            if op.variant == "deferred":
                pending = n_ctx
            else:
                live.append(n_ctx)
            n_ctx += 1
        elif op.kind == "leave":
            live.remove(op.ctx)
    return ops


def max_options(alphabet: Alphabet) -> int:
    n = alphabet.max_ctx
    live = list(range(n))
    return max(len(alphabet.options(k, live[:k])) for k in range(1, n + 1))


# ------------------------------------------------------------------------------ model
@dataclass
class MFactory:
    fid: int
    types: tuple
    name: str
    is_async: bool
    description: str
    calls: list = field(default_factory=list)  # context index of every call


@dataclass
class MRes:
    value: Any
    generated: bool
    types: tuple = ()


class MCtx:
    def __init__(self, idx, parent: Optional["MCtx"]):
        self.idx = idx
        self.parent = parent.idx if parent else None
        self.res: dict = {}
        self.fac: dict = {}
        self.teardown: list = []  # labels of scheduled teardown callbacks
        self.events: list = []
        self.open = True
        self.entered = True
        if parent is not None:
            self.res = {k: v for k, v in parent.res.items() if not v.generated}
            self.fac = dict(parent.fac)


@dataclass
class Divergence:
    classes: frozenset
    sig: str
    detail: str


class Stop(Exception):
    def __init__(self, div):
        self.div = div


def diverge(classes, sig, detail=""):
    raise Stop(Divergence(frozenset(classes), sig, str(detail)[:1500]))


# ------------------------------------------------------------------------------ actors
class Box:
    value = None
    exc = None


class Actor:
    def __init__(self, idx, parent_ctx, listen, pre_ctx=None):
        self.idx = idx
        self.parent_ctx = parent_ctx
        self.pre_ctx = pre_ctx
        self.listen = listen
        self.queue = []
        self.wake = anyio.Event()
        self.ctx: Context | None = None
        self.exit_exc = None
        self.finished = anyio.Event()
        self.events = []
        self.listener_scope = None
        self.extra_scope = None
        self.extra_events = []

    async def _listener(self, *, task_status):
        with anyio.CancelScope() as scope:
            self.listener_scope = scope
            async with self.ctx.resource_added.stream_events(max_queue_size=100) as stream:
                task_status.started()
                async for ev in stream:
                    self.events.append(ev)

    async def _extra_listener(self, *, task_status):
        """A second, short-lived listener that subscribed BEFORE the permanent one and is
        cancelled in the middle of its stream by a `drop` operation."""
        with anyio.CancelScope() as scope:
            self.extra_scope = scope
            # a SLOW subscriber: one-slot queue, never reads (its queue is full after the first event)
            async with self.ctx.resource_added.stream_events(max_queue_size=1):
                task_status.started()
                await anyio.sleep_forever()

    async def run(self, tg, *, task_status):
        try:
            if self.pre_ctx is not None:
                ctx = self.pre_ctx
            else:
                ctx = Context(self.parent_ctx) if self.parent_ctx is not None else Context()
            async with ctx:
                self.ctx = ctx
                if self.listen == "extra":
                    await tg.start(self._extra_listener)
                if self.listen:
                    await tg.start(self._listener)
                task_status.started()
                while True:
                    await self.wake.wait()
                    self.wake = anyio.Event()
                    while self.queue:
                        fn, box, done = self.queue.pop(0)
                        if fn is None:
                            done.set()
                            return
                        try:
                            r = fn(ctx)
                            if hasattr(r, "__await__"):
                                r = await r
                            box.value = r
                        except Exception as e:
                            box.exc = e
                        done.set()
        except BaseException as e:
            self.exit_exc = e
            if not isinstance(e, Exception):
                raise
        finally:
            if self.listener_scope is not None:
                self.listener_scope.cancel()
            if self.extra_scope is not None:
                self.extra_scope.cancel()
            self.finished.set()

    async def call(self, fn):
        box, done = Box(), anyio.Event()
        self.queue.append((fn, box, done))
        self.wake.set()
        await done.wait()
        return box

    async def stop(self):
        box, done = Box(), anyio.Event()
        self.queue.append((None, box, done))
        self.wake.set()
        await self.finished.wait()


# injected lookups (C02: "injected parameters agree"; C04: "whichever lookup API")
def _mk_injected():
    fns = {}
    for t in TYPES:
        for name in ("a", "b"):

            def mk(t=t, name=name):
                ns = {"T": t, "inject": inject, "resource": resource, "Optional": Optional}
                exec(
                    "@inject\n"
                    f"def f_sync(*, r: T = resource({name!r})):\n    return r\n"
                    "@inject\n"
                    f"async def f_async(*, r: T = resource({name!r})):\n    return r\n"
                    "@inject\n"
                    f"def f_sync_opt(*, r: Optional[T] = resource({name!r})):\n    return r\n"
                    "@inject\n"
                    f"async def f_async_opt(*, r: Optional[T] = resource({name!r})):\n    return r\n",
                    ns,
                )
                return ns["f_sync"], ns["f_async"], ns["f_sync_opt"], ns["f_async_opt"]

            fns[(t, name)] = mk()
    return fns


INJECTED = _mk_injected()


def do_lookup(api, t, name):
    """Returns a callable(ctx) performing one lookup through the given public API, from
    inside the context's own task (so current_context() is that context)."""
    if api == "nowait":
        return lambda ctx: ctx.get_resource_nowait(t, name)
    if api == "await":
        return lambda ctx: ctx.get_resource(t, name)
    if api == "inject_sync":
        return lambda ctx: INJECTED[(t, name)][0]()
    if api == "inject_async":
        return lambda ctx: INJECTED[(t, name)][1]()
    if api == "inject_sync_opt":
        return lambda ctx: INJECTED[(t, name)][2]()
    if api == "inject_async_opt":
        return lambda ctx: INJECTED[(t, name)][3]()
    if api == "shortcut_nowait":
        return lambda ctx: get_resource_nowait(t, name)
    if api == "shortcut_await":
        return lambda ctx: get_resource(t, name)
    raise AssertionError(api)


AGREE_APIS = ("nowait", "await", "inject_sync", "inject_async", "shortcut_nowait", "shortcut_await", "inject_sync_opt", "inject_async_opt")


# ------------------------------------------------------------------------------ engine
class Engine:
    def __init__(self, ops, listen=False, final_probes=True, check_events=False):
        self.ops = ops
        self.listen = listen
        self.final_probes = final_probes
        self.check_events = check_events
        self.model: list[MCtx] = []
        self.actors: list[Actor] = []
        self.factories: list[MFactory] = []
        self.fac_calls = []  # (fid, ctx idx of current_context()) in call order
        self.teardown_log = []
        self.n_val = 0
        self.trace = []
        self.divergence: Divergence | None = None
        self.compared = 0
        self.closed_order = []
        self.last_failed = False
        self.failed_keys: dict = {}  # ctx idx -> keys named by calls that were refused there
        self.pending_enter = None

    # -- real-side helpers
    def new_val(self, label):
        self.n_val += 1
        return Val(f"{label}#{self.n_val}")

    def ctx_index(self, ctx):
        for a in self.actors:
            if a.ctx is ctx:
                return a.idx
        return None

    def make_factory_cb(self, mf: MFactory):
        eng = self

        def record():
            try:
                cur = current_context()
            except Exception:
                cur = None
            eng.fac_calls.append((mf.fid, eng.ctx_index(cur)))
            return eng.new_val(f"gen-f{mf.fid}")

        if mf.is_async:

            async def produce():
                v = record()
                await anyio.sleep(0)
                return v

            if mf.fid % 2 == 1:
                cb = produce  # a coroutine function
            else:
                cb = lambda: produce()  # noqa: E731 - a plain callable returning a coroutine: just as asynchronous

        else:

            def cb():
                return record()

        return cb

    # -- observation of one context without triggering factories
    async def view(self, actor: Actor):
        def obs(ctx):
            out = {}
            for t in TYPES:
                got = dict(ctx.get_resources(t))
                got2 = dict(get_resources(t))
                if got.keys() != got2.keys() or any(got[k] is not got2[k] for k in got):
                    diverge({"C02"}, "paths-disagree:get_resources-shortcut", f"{got} vs {got2}")
                for name, v in got.items():
                    out[(t, name)] = v
                    direct = ctx.get_resource_nowait(t, name)  # present, so nothing is generated
                    if direct is not v:
                        diverge({"C02", "C03"}, f"paths-disagree:get_resources-vs-get_resource_nowait:{TNAME[t]}/{name}",
                                f"get_resources says {v!r}, get_resource_nowait says {direct!r}")
            return out

        box = await actor.call(obs)
        if box.exc is not None:
            if isinstance(box.exc, Stop):
                raise box.exc
            diverge({"C02", "C03"}, f"view-raised:{type(box.exc).__name__}", box.exc)
        return box.value

    async def compare_views(self, op: Op, step):
        """Compare every live context's static view with the model after `op`."""
        for m in self.model:
            if not m.open or not m.entered:
                continue
            real = await self.view(self.actors[m.idx])
            exp = {k: r.value for k, r in m.res.items()}
            self.compared += 1
            if real.keys() == exp.keys() and all(real[k] is exp[k] for k in real):
                continue
            extra = sorted(f"{TNAME[k[0]]}/{k[1]}" for k in real.keys() - exp.keys())
            missing = sorted(f"{TNAME[k[0]]}/{k[1]}" for k in exp.keys() - real.keys())
            changed = sorted(f"{TNAME[k[0]]}/{k[1]}" for k in real.keys() & exp.keys() if real[k] is not exp[k])
            detail = f"step {step} {op.text()}: context c{m.idx} shows extra={extra} missing={missing} changed={changed}"
            other = m.idx != (len(self.model) - 1 if op.kind == "create" else op.ctx)
            if op.kind == "create":
                if not other:
                    par = self.model[m.parent]
                    gen_leak = any(
                        k in par.res and par.res[k].generated for k in (real.keys() - exp.keys())
                    )
                    if gen_leak:
                        diverge({"C02", "C04"}, f"child-inherits-generated:{','.join(extra)}", detail)
                    diverge({"C02"}, f"child-snapshot:extra={extra}:missing={missing}:changed={changed}", detail)
                diverge({"C02"}, f"frame:create-changed-c{m.idx}", detail)
            if other:
                cls = {"C02"}
                if op.kind == "look":
                    cls.add("C04")
                diverge(cls, f"frame:{op.kind}-on-c{op.ctx}-changed-c{m.idx}:extra={extra}:missing={missing}:changed={changed}", detail)
            if op.kind in ("add", "fac"):
                # the context now shows something that was never (successfully) added to it, or lacks what was: also not "exactly ... plus
                # whatever has since been added" (C02), besides the atomicity clause (C03)
                diverge({"C03", "C02"}, f"{op.kind}:{op.variant}:own-view:extra={extra}:missing={missing}:changed={changed}", detail)
            if op.kind == "look":
                cls = {"C04"}
                if changed:
                    cls.add("C03")
                diverge(cls, f"lookup:own-view:extra={extra}:missing={missing}:changed={changed}", detail)
            diverge({"C02"}, f"view:{op.kind}", detail)

    async def check_event_payloads(self, op: Op, step):
        """"carrying the registered types": every type an event of a resource names must resolve,
        in that context, to a resource of that name."""
        if not self.check_events:
            return
        for m in self.model:
            if not m.open or not m.entered:
                continue
            actor = self.actors[m.idx]
            fresh = actor.events[getattr(actor, "payload_checked", 0):]
            actor.payload_checked = len(actor.events)
            if not fresh:
                continue
            real = await self.view(actor)
            for e in fresh:
                if e.is_factory:
                    continue
                for t in e.resource_types:
                    if (t, e.resource_name) not in real:
                        diverge({"C18"}, f"event-names-a-type-the-resource-is-not-registered-under:{op.kind}:{op.api if op.kind == 'look' else op.variant}",
                                f"step {step} {op.text()}: event types {[TNAME.get(x, x) for x in e.resource_types]} name {e.resource_name!r}, "
                                f"but c{m.idx} has no ({TNAME.get(t, t)},{e.resource_name!r})")

    def compare_events(self, op: Op, step):
        if not self.check_events:
            return
        for m in self.model:
            if not m.entered:
                continue
            real = [
                (tuple(e.resource_types), e.resource_name, e.resource_description, e.is_factory, self.ctx_index(e.source), e.topic)
                for e in self.actors[m.idx].events
            ]
            exp = [(ty, n, d, f, m.idx, "resource_added") for ty, n, d, f in m.events]
            if real != exp:
                def fmt(x):
                    return [("+".join(TNAME.get(t, str(t)) for t in e[0]),) + tuple(e[1:]) for e in x]

                diverge({"C18", "C03"} if self.last_failed else {"C18"}, f"events:{op.kind}:{op.variant if op.kind != 'look' else op.api}:c{m.idx}:got={len(real)}:exp={len(exp)}",
                        f"step {step} {op.text()}: events on c{m.idx}: got {fmt(real)} expected {fmt(exp)}")

    # -- operations
    async def op_create(self, op, tg):
        parent = self.model[op.ctx]
        m = MCtx(len(self.model), parent)  # the model takes the snapshot NOW, at creation
        self.model.append(m)
        if op.variant == "deferred":
            pre = Context(self.actors[op.ctx].ctx)  # constructed now ...
            actor = Actor(m.idx, self.actors[op.ctx].ctx, self.listen, pre_ctx=pre)
            self.actors.append(actor)
            m.entered = False
            self.pending_enter = (actor, m, op)  # ... entered after the next operation
            return
        actor = Actor(m.idx, self.actors[op.ctx].ctx, self.listen)
        self.actors.append(actor)
        await tg.start(actor.run, tg)
        if actor.ctx.parent is not self.actors[op.ctx].ctx:
            diverge({"C02", "C12"}, "child-parent-link", "")

    async def enter_pending(self, tg):
        if self.pending_enter is None:
            return
        actor, m, op = self.pending_enter
        self.pending_enter = None
        await tg.start(actor.run, tg)
        m.entered = True
        if actor.ctx.parent is not self.actors[op.ctx].ctx:
            diverge({"C02", "C12"}, "child-parent-link", "")

    async def op_visit(self, op):
        root_ctx = self.actors[0].ctx

        async def go(ctx):
            async with Context(root_ctx) as tmp:
                tmp.add_resource(object(), "visitor_only", [T0]) if False else None

        box = await self.actors[op.ctx].call(go)
        if box.exc is not None:
            diverge({"C02", "C12"}, f"visit-raised:{type(box.exc).__name__}", repr(box.exc))

    async def op_add(self, op):
        m = self.model[op.ctx]
        value = self.new_val(f"s-c{op.ctx}")
        label = f"td-{value.label}"
        kwargs = {}
        args_types = list(op.types)
        name = op.name
        desc = f"d{self.n_val}"
        expect_exc = None
        if op.variant == "none":
            value, expect_exc = None, ValueError
        elif op.variant == "badname":
            name, expect_exc = "not valid", ValueError
        elif op.variant == "badcb":
            kwargs["teardown_callback"] = "not callable"
            expect_exc = TypeError
        elif op.variant == "badcb0":
            kwargs["teardown_callback"] = 0  # not callable either - and falsy
            expect_exc = TypeError
        elif op.variant == "badtypes":
            args_types, expect_exc = [op.types[0], "str"], TypeError
        elif op.variant == "td":
            kwargs["teardown_callback"] = lambda: self.teardown_log.append(label)
        elif op.variant == "same":
            # the very object that is already published under the first requested pair (own or inherited) is published again
            held = m.res.get((op.types[0], name))
            if held is not None:
                value = held.value
        conflict = any((t, name) in m.res for t in op.types)
        if expect_exc is None and conflict:
            expect_exc = ResourceConflict
        heard_before = len(self.actors[op.ctx].events) if self.listen else 0
        box = await self.actors[op.ctx].call(
            lambda ctx: ctx.add_resource(value, name, args_types, description=desc, **kwargs)
        )
        got = type(box.exc) if box.exc is not None else None
        if got is None and expect_exc is not None and self.listen:
            await anyio.wait_all_tasks_blocked()
            if len(self.actors[op.ctx].events) == heard_before:
                self.last_failed = True
                diverge({"C03", "C18"}, f"add:{op.variant}:returned-normally-but-announced-nothing:expected={expect_exc.__name__}",
                        f"{op.text()} returned normally (a successful call) and no event was dispatched")
        self.last_failed = expect_exc is not None
        if expect_exc is not None:
            self.failed_keys.setdefault(op.ctx, set()).update((t, n_) for t in op.types for n_ in (op.name, name))
        if got is not expect_exc:
            if expect_exc is None and got not in (ResourceConflict, ValueError, TypeError, RuntimeError):
                # the call is valid, the publication may even have happened, but announcing it blew up
                diverge({"C03", "C18"}, f"add:{op.variant}:publication-raised:{got.__name__}", f"{op.text()} -> {box.exc!r}")
            diverge({"C03"}, f"add:{op.variant}:raised={got.__name__ if got else None}:expected={expect_exc.__name__ if expect_exc else None}",
                    f"{op.text()} -> {box.exc!r}")
        if expect_exc is None:
            r = MRes(value, False, tuple(op.types))
            for t in op.types:
                m.res[(t, name)] = r
            if op.variant == "td":
                m.teardown.append(label)
            m.events.append((tuple(op.types), name, desc, False))

    async def op_fac(self, op):
        m = self.model[op.ctx]
        mf = MFactory(len(self.factories), tuple(op.types), op.name, op.is_async, f"fd{len(self.factories)}")
        name = op.name
        types = list(op.types)
        expect_exc = None
        if op.variant == "badname":
            name, expect_exc = "not valid", ValueError
        elif op.variant == "nonetype":
            types, expect_exc = [op.types[0], None], TypeError
        conflict = any((t, name) in m.fac for t in op.types)
        if expect_exc is None and conflict:
            expect_exc = ResourceConflict
        cb = self.make_factory_cb(mf)
        box = await self.actors[op.ctx].call(
            lambda ctx: ctx.add_resource_factory(cb, name, types=types, description=mf.description)
        )
        got = type(box.exc) if box.exc is not None else None
        self.last_failed = expect_exc is not None
        if expect_exc is not None:
            self.failed_keys.setdefault(op.ctx, set()).update((t, n_) for t in op.types for n_ in (op.name, name))
        if got is not expect_exc:
            if expect_exc is None and got not in (ResourceConflict, ValueError, TypeError, RuntimeError):
                diverge({"C03", "C18"}, f"fac:{op.variant}:publication-raised:{got.__name__}", f"{op.text()} -> {box.exc!r}")
            diverge({"C03"}, f"fac:{op.variant}:raised={got.__name__ if got else None}:expected={expect_exc.__name__ if expect_exc else None}",
                    f"{op.text()} -> {box.exc!r}")
        if expect_exc is None:
            self.factories.append(mf)
            for t in op.types:
                m.fac[(t, name)] = mf
            m.events.append((tuple(op.types), name, mf.description, True))

    async def op_look(self, op, step, probe=False):
        m = self.model[op.ctx]
        t = op.types[0]
        key = (t, op.name)
        actor = self.actors[op.ctx]
        calls_before = len(self.fac_calls)
        box = await actor.call(do_lookup(op.api, t, op.name))
        new_calls = self.fac_calls[calls_before:]
        where = f"step {step} {op.text()}"
        sync_api = op.api in ("nowait", "inject_sync", "shortcut_nowait", "inject_sync_opt")
        optional_api = op.api.endswith("_opt")
        if key in m.res:
            exp = m.res[key]
            if new_calls:
                diverge({"C04", "C03"}, f"lookup:factory-called-for-existing:{op.api}", where)
            if box.exc is not None:
                diverge({"C02", "C03"}, f"lookup:existing-raised:{type(box.exc).__name__}:{op.api}", f"{where}: {box.exc!r}")
            if box.value is not exp.value:
                cls = {"C03"}
                if exp.generated or (isinstance(box.value, Val) and box.value.label.startswith("gen")):
                    cls.add("C04")
                diverge(cls, f"lookup:identity-changed:{op.api}:was={'generated' if exp.generated else 'static'}",
                        f"{where}: got {box.value!r}, expected {exp.value!r}")
        elif key in m.fac:
            mf = m.fac[key]
            if mf.is_async and sync_api:
                if not isinstance(box.exc, AsyncResourceError):
                    diverge({"C04"}, f"lookup:async-factory-via-sync-api:{op.api}:got={type(box.exc).__name__ if box.exc else 'value'}", where)
                # the factory function was called (to find out it is async) but nothing may be stored
            else:
                if box.exc is not None:
                    if isinstance(box.exc, ResourceNotFound):
                        diverge({"C02"}, f"lookup:factory-not-visible:{op.api}", where)
                    diverge({"C04"}, f"lookup:generation-raised:{type(box.exc).__name__}:{op.api}", f"{where}: {box.exc!r}")
                if box.value is None and not new_calls:
                    # the factory is visible on every other lookup path; this one reported "nothing there"
                    diverge({"C02", "C19", "C04"}, f"lookup:factory-not-visible:{op.api}:returned-None", where)
                if len(new_calls) != 1 or new_calls[0][0] != mf.fid:
                    if not new_calls and isinstance(box.value, Val):
                        diverge({"C04", "C02"}, f"lookup:factory-not-called:{op.api}:returned={box.value.label.split('#')[0]}",
                                f"{where}: returned {box.value!r} without calling the factory")
                    diverge({"C04"}, f"lookup:factory-calls={len(new_calls)}:{op.api}", f"{where}: calls {new_calls}")
                if new_calls[0][1] != op.ctx:
                    diverge({"C04"}, f"lookup:factory-ran-in-c{new_calls[0][1]}-not-c{op.ctx}:{op.api}", where)
                if not isinstance(box.value, Val) or not box.value.label.startswith(f"gen-f{mf.fid}#"):
                    diverge({"C04"}, f"lookup:not-the-factory-product:{op.api}", f"{where}: {box.value!r}")
                r = MRes(box.value, True, mf.types)
                for ft in mf.types:
                    m.res.setdefault((ft, mf.name), r)
                mf.calls.append(op.ctx)
                m.events.append((mf.types, mf.name, mf.description, False))
        else:
            # a key that resolves although only a REFUSED call ever named it (here or in an ancestor): the refused call left something behind
            cls_failed, c_ = set(), op.ctx
            while c_ is not None:
                if key in self.failed_keys.get(c_, ()):
                    cls_failed = {"C03"}
                c_ = self.model[c_].parent
            if new_calls:
                diverge({"C02", "C04"} | cls_failed, f"lookup:foreign-factory-called:{op.api}", f"{where}: {new_calls}")
            if optional_api:
                if box.exc is not None or box.value is not None:
                    diverge({"C02", "C19"} | cls_failed, f"lookup:invisible-key-resolved:{op.api}:{'value' if box.exc is None else type(box.exc).__name__}",
                            f"{where}: got {box.value!r} / {box.exc!r}, expected None")
            elif not isinstance(box.exc, ResourceNotFound):
                cls = {"C02"} | cls_failed
                diverge(cls, f"lookup:invisible-key-resolved:{op.api}:{'value' if box.exc is None else type(box.exc).__name__}",
                        f"{where}: got {box.value!r} / {box.exc!r}, expected ResourceNotFound")
        # all lookup paths agree (non-generating now, or all refusing)
        if key in m.res and not probe:
            exp = m.res[key].value
            for api in AGREE_APIS:
                if api == op.api:
                    continue
                b2 = await actor.call(do_lookup(api, t, op.name))
                if b2.exc is not None or b2.value is not exp:
                    diverge({"C02", "C19" if api.startswith("inject") else "C02"},
                            f"paths-disagree:{api}-vs-{op.api}", f"{where}: {api} gave {b2.value!r}/{b2.exc!r}, expected {exp!r}")

    async def op_drop(self, op):
        sc = self.actors[op.ctx].extra_scope
        if sc is not None:
            sc.cancel()
            await anyio.wait_all_tasks_blocked()

    async def op_leave(self, op):
        m = self.model[op.ctx]
        await self.actors[op.ctx].stop()
        m.open = False
        self.closed_order.append(m)
        if self.actors[op.ctx].exit_exc is not None:
            diverge({"C03", "C01"}, f"exit-raised:{type(self.actors[op.ctx].exit_exc).__name__}",
                    repr(self.actors[op.ctx].exit_exc))

    # -- driver
    async def main(self):
        async with anyio.create_task_group() as tg:
            try:
                root = Actor(0, None, self.listen)
                self.actors.append(root)
                self.model.append(MCtx(0, None))
                await tg.start(root.run, tg)
                for step, op in enumerate(self.ops):
                    self.trace.append(op.text())
                    self.last_failed = False
                    try:
                        had_pending = self.pending_enter is not None
                        if op.kind == "create":
                            await self.op_create(op, tg)
                        elif op.kind == "visit":
                            await self.op_visit(op)
                        elif op.kind == "add":
                            await self.op_add(op)
                        elif op.kind == "fac":
                            await self.op_fac(op)
                        elif op.kind == "look":
                            await self.op_look(op, step)
                        elif op.kind == "drop":
                            await self.op_drop(op)
                        else:
                            await self.op_leave(op)
                        if had_pending:
                            await self.enter_pending(tg)
                        await self.compare_views(op, step)
                    except Stop as first:
                        # the events of this very step are still judged (a defect of another
                        # property's class must not hide a wrong announcement)
                        if self.listen and self.check_events:
                            await anyio.wait_all_tasks_blocked()
                            try:
                                await self.check_event_payloads(op, step)
                                self.compare_events(op, step)
                            except Stop as second:
                                d1, d2 = first.div, second.div
                                raise Stop(Divergence(d1.classes | d2.classes, d1.sig + " + " + d2.sig, d1.detail + " | " + d2.detail))
                        raise
                    if self.listen:
                        await anyio.wait_all_tasks_blocked()
                        await self.check_event_payloads(op, step)
                        self.compare_events(op, step)
                await self.enter_pending(tg)
                if self.final_probes:
                    step = len(self.ops)
                    for m in list(self.model):
                        if not m.open:
                            continue
                        for t in TYPES:
                            for name in sorted({k[1] for k in m.res} | {k[1] for k in m.fac} | {"a"}):
                                key = (t, name)
                                api = "await" if key in m.fac and m.fac[key].is_async else "nowait"
                                op = Op("look", m.idx, (t,), name, api=api)
                                await self.op_look(op, f"{step}(final probe)", probe=True)
                                await self.compare_views(op, f"{step}(final probe)")
                                if self.listen:
                                    # every event object heard so far is looked at again: a later generation elsewhere must not have touched it
                                    await anyio.wait_all_tasks_blocked()
                                    self.compare_events(op, f"{step}(final probe)")
                # close everything, newest first; teardown log must equal the model's
                for m in reversed(self.model):
                    if m.open:
                        await self.actors[m.idx].stop()
                        m.open = False
                        self.closed_order.append(m)
                        if self.actors[m.idx].exit_exc is not None:
                            diverge({"C03", "C01"}, f"exit-raised:{type(self.actors[m.idx].exit_exc).__name__}",
                                    repr(self.actors[m.idx].exit_exc))
            except Stop as s:
                self.divergence = s.div
            finally:
                tg.cancel_scope.cancel()

    def check_teardown(self):
        exp = []
        for m in self.closed_order:  # within a context: LIFO
            exp += list(reversed(m.teardown))
        if self.teardown_log != exp:
            return Divergence(frozenset({"C03"}), f"teardown-callbacks:got={len(self.teardown_log)}:exp={len(exp)}",
                              f"teardown log {self.teardown_log} expected {exp}")
        return None


def run_history(ops, *, listen=False, final_probes=True, check_events=False, check_teardown=False):
    import warnings

    eng = Engine(ops, listen=listen, final_probes=final_probes, check_events=check_events)
    with warnings.catch_warnings():
        warnings.simplefilter("ignore")  # SignalQueueFull of the deliberately slow listener
        _, exc, k = run(eng.main, max_steps=50000)
    if exc is not None:
        raise exc
    div = eng.divergence
    if div is None and check_teardown:
        div = eng.check_teardown()
    return div, eng
