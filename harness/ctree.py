"""Component-tree scenario builder shared by C05, C06, C07 (and C02/C14/C15 extras).

A tree of instrumented Component classes is generated from a plain description; every
constructor / prepare() / start() logs its begin and end and interprets a small list of
steps (checkpoint, sleep, publish, wait for a resource, register a teardown callback,
raise).  Nothing is hooked inside asphalt: the classes are ordinary user components.
"""
from __future__ import annotations

from dataclasses import dataclass, field
from typing import Any

import anyio

from asphalt.core import (  # noqa: E402
    Component,
    add_resource,
    add_resource_factory,
    add_teardown_callback,
    current_context,
    get_resource,
    get_resource_nowait,
)


class R0:
    pass


class R1:
    pass


class R2:
    pass


class R3:
    pass


class R4:
    pass


class R5:
    pass


class R6:
    pass


RT = (R0, R1, R2, R3, R4, R5, R6)

import types as _types  # noqa: E402

REFS = _types.SimpleNamespace()  # classes reachable as "harness.ctree:REFS.c<idx>"

# all rooted tree shapes as parent vectors (node 0 is the root; parent[i] < i)
def shapes(n: int) -> list:
    out = [[]]
    for i in range(1, n):
        out = [s + [p] for s in out for p in range(i)]
    return [[-1] + s for s in out] if n > 0 else []


@dataclass
class NodeSpec:
    idx: int
    parent: int
    prepare: list | None = None  # list of steps, or None = method not defined
    start: list | None = None
    init_raises: BaseException | None = None
    inherit: bool = False  # methods defined on an intermediate base class
    alias: str = ""
    kwargs: dict = field(default_factory=dict)
    by_ref: bool = False  # declared to its parent by a "module:attr" string instead of the class object


class Env:
    def __init__(self):
        self.log: list = []
        self.values: dict = {}
        self.instances: dict = {}
        self.misc: dict = {}

    def ev(self, *e):
        self.log.append(tuple(e))

    def index(self, *e):
        return self.log.index(tuple(e))

    def has(self, *e):
        return tuple(e) in self.log

    def count(self, *e):
        return self.log.count(tuple(e))


from asphalt.core import context_teardown as _context_teardown  # noqa: E402


@_context_teardown
async def _shared_context_teardown(env, label):
    env.ev("td_registered", label)
    yield
    env.ev("td", label)


_GETTERS: dict = {}


def _injected_getter(t, name):
    if (t, name) not in _GETTERS:
        from asphalt.core import inject, resource

        ns = {"T": t, "inject": inject, "resource": resource}
        exec(f"@inject\nasync def getter(*, r: T = resource({name!r})):\n    return r\n", ns)
        _GETTERS[(t, name)] = ns["getter"]
    return _GETTERS[(t, name)]


async def run_steps(env: Env, node: NodeSpec, phase: str, steps: list):
    for st in steps:
        k = st[0]
        if k == "cp":
            await anyio.sleep(0)
            env.ev("cp_done", node.idx)
        elif k == "svc":
            # ("svc", label, checkpoints before started(), stall: never call started())
            # optional 5th element "callable": stopped through a callable teardown_action instead of cancellation
            label, pre, stall = st[1:4]
            stop = anyio.Event()

            async def service(*, task_status, label=label, pre=pre, stall=stall, stop=stop):
                env.ev("svc_begin", label)
                try:
                    for _ in range(pre):
                        await anyio.sleep(0)
                    if stall:
                        await anyio.sleep_forever()
                    task_status.started()
                    env.ev("svc_started", label)
                    await stop.wait()
                finally:
                    env.ev("svc_end", label)

            def action(label=label, stop=stop):
                env.ev("svc_action", label)
                stop.set()

            from asphalt.core import start_service_task

            if len(st) > 4 and st[4] == "callable":
                await start_service_task(service, label, teardown_action=action)
            else:
                await start_service_task(service, label)
            env.ev("svc_registered", node.idx, label)
        elif k == "sleep":
            await anyio.sleep(st[1])
        elif k == "pub":
            # ("pub", label, value, name, types)
            _, label, value, name, types = st
            add_resource(value, name, types)
            env.ev("pub", node.idx, label)
        elif k == "pubtwice":
            # the component fails INSIDE add_resource(..., teardown_callback=...): the pair is already taken (by itself, a moment ago)
            add_resource(object(), "dup", [R6])
            add_resource(object(), "dup", [R6], teardown_callback=lambda: env.ev("td", "callback-of-the-refused-resource"))
        elif k == "pubfail":
            # a publication that is refused (ResourceConflict) and handled by the component
            _, label, value, name, types = st
            from asphalt.core import ResourceConflict

            try:
                add_resource(value, name, types)
                env.ev("pub", node.idx, label)
            except ResourceConflict:
                env.ev("refused", node.idx, label)
        elif k == "fac":
            _, label, cb, name, types = st
            add_resource_factory(cb, name, types=types)
            env.ev("pub", node.idx, label)
        elif k == "wait":
            # ("wait", label, type, name)
            _, label, t, name = st
            env.ev("wait_begin", node.idx, label)
            v = await get_resource(t, name)
            env.values[(node.idx, label)] = v
            env.ev("wait_end", node.idx, label)
        elif k == "injwait":
            # ("injwait", label, type, name): the resource is obtained as an injected parameter of an @inject coroutine function
            _, label, t, name = st
            env.ev("wait_begin", node.idx, label)
            v = await _injected_getter(t, name)()
            env.values[(node.idx, label)] = v
            env.ev("wait_end", node.idx, label)
        elif k == "tf":
            # ("tf", label, checkpoints before started()): start a task factory and a task with a slow start-up in it
            _, label, pre = st
            from asphalt.core import start_background_task_factory

            tf = await start_background_task_factory()

            async def job(*, task_status, label=label, pre=pre):
                env.ev("job_begin", label)
                for _ in range(pre):
                    await anyio.sleep(0)
                task_status.started()
                env.ev("job_started", label)

            await tf.start_task(job, label)
            env.ev("tf_done", node.idx, label)
        elif k == "stall":
            # ("stall", kind): never finishes; what the component is suspended in differs
            kind = st[1]
            env.ev("stalling", node.idx, kind)
            if kind == "anext":

                async def agen():
                    await anyio.sleep_forever()
                    yield 1

                await anext(agen(), None)
            elif kind == "aclose":

                async def agen2():
                    try:
                        yield 1
                    finally:
                        await anyio.sleep_forever()

                it = agen2()
                await it.__anext__()
                await it.aclose()
            elif kind == "event":
                await anyio.Event().wait()
            else:
                await anyio.sleep_forever()
        elif k == "giveup":
            # ("giveup", type, name): an optional dependency that is given up at once (cancelled while waiting)
            _, t, name = st[:3]
            with anyio.move_on_after(st[3] if len(st) > 3 else 0) as scope:
                await get_resource(t, name)
            env.ev("gave_up", node.idx, scope.cancelled_caught)
        elif k == "tryget":
            # ("tryget", label, type, name): a lookup whose failure the component handles itself
            _, label, t, name = st
            env.ev("wait_begin", node.idx, label)
            try:
                env.values[(node.idx, label)] = await get_resource(t, name)
            except Exception as e:
                env.values[(node.idx, label)] = e
            env.ev("wait_end", node.idx, label)
        elif k == "subctx":
            # ("subctx", label, type, name): open a Context() of our own and look the resource up in it
            _, label, t, name = st
            from asphalt.core import Context

            async with Context() as sub:
                env.values[(node.idx, label + ":parent")] = sub.parent
                try:
                    env.values[(node.idx, label)] = sub.get_resource_nowait(t, name)
                except Exception as e:
                    env.values[(node.idx, label)] = e
            env.ev("subctx", node.idx, label)
        elif k == "opt":
            _, label, t, name = st
            steps_before = None
            v = await get_resource(t, name, optional=True)
            env.values[(node.idx, label)] = v
            env.ev("opt", node.idx, label)
        elif k == "optnowait":
            # ("optnowait", label, type, name): the synchronous OPTIONAL lookup
            _, label, t, name = st
            try:
                env.values[(node.idx, label)] = get_resource_nowait(t, name, optional=True)
            except Exception as e:
                env.values[(node.idx, label)] = e
            env.ev("nowait", node.idx, label)
        elif k == "tdnested":
            # a teardown callback that registers a further callback while the teardown is running (e.g. a lazily created resource's clean-up)
            label = st[1]

            def cb_nested(label=label):
                env.ev("td", label)
                env.ev("td_registered_late", "late-" + label)
                add_teardown_callback(lambda: env.ev("td", "late-" + label))

            add_teardown_callback(cb_nested)
            env.ev("td_registered", label)
        elif k == "nowait":
            _, label, t, name = st
            try:
                env.values[(node.idx, label)] = get_resource_nowait(t, name)
            except Exception as e:
                env.values[(node.idx, label)] = e
            env.ev("nowait", node.idx, label)
        elif k == "td":
            label = st[1]
            add_teardown_callback(lambda label=label: env.ev("td", label))
            env.ev("td_registered", label)
        elif k == "tdaw":
            # a teardown callback that returns a NON-coroutine awaitable (like pool.close() of some libraries); done only once that was awaited
            label = st[1]

            class _Aw:
                def __await__(self, label=label):
                    yield from anyio.sleep(0).__await__()
                    env.ev("td", label)

            add_teardown_callback(lambda: _Aw())
            env.ev("td_registered", label)
        elif k == "ctxtd":
            # ONE @context_teardown function shared by every component that uses this step
            await _shared_context_teardown(env, st[1])
        elif k == "tdbase":
            # a teardown callback that raises a BaseException
            label = st[1]

            def cb_base(label=label):
                env.ev("td", label)
                env.misc[("exc", label)] = st[2](label)
                raise env.misc[("exc", label)]

            add_teardown_callback(cb_base)
            env.ev("td_registered", label)
        elif k == "tdcancel":
            # an async teardown callback during which the scope around the caller's context is cancelled
            label = st[1]

            async def cb_cancel(label=label):
                env.ev("td", label)
                env.misc["scope"].cancel()
                await anyio.sleep(0)

            add_teardown_callback(cb_cancel)
            env.ev("td_registered", label)
        elif k == "svcnone":
            # a service task with teardown_action=None ("just wait for it"): it ends on its own once a later-registered callback told it to
            label = st[1]
            stop = anyio.Event()

            async def service_none(label=label, stop=stop):
                env.ev("svc_begin", label)
                await stop.wait()
                await anyio.sleep(0)
                await anyio.sleep(0)
                env.ev("svc_end", label)

            from asphalt.core import start_service_task

            await start_service_task(service_none, label, teardown_action=None)

            def stopper(label=label, stop=stop):
                env.ev("td", label + ":stop")
                stop.set()

            add_teardown_callback(stopper)
            env.ev("td_registered", label + ":stop")
        elif k == "raise":
            env.ev("raising", node.idx, phase)
            raise st[1]
        elif k == "call":
            r = st[1](env, node)
            if hasattr(r, "__await__"):
                await r
        else:
            raise AssertionError(st)


def build_classes(env: Env, nodes: list) -> list:
    """Returns the list of classes (index = node idx); classes[0] is the root class."""
    classes: list = [None] * len(nodes)
    kids = {n.idx: [c for c in nodes if c.parent == n.idx] for n in nodes}
    for node in sorted(nodes, key=lambda n: -n.idx):
        ns: dict[str, Any] = {}

        def __init__(self, _node=node, **kw):
            env.ev("init", _node.idx)
            env.instances[_node.idx] = self
            self.received_kwargs = kw
            if _node.init_raises is not None:
                raise _node.init_raises
            for c in kids[_node.idx]:
                tp = f"harness.ctree:REFS.c{c.idx}" if c.by_ref else classes[c.idx]
                self.add_component(c.alias or f"n{c.idx}", tp, **c.kwargs)

        methods: dict[str, Any] = {}
        if node.prepare is not None:

            async def prepare(self, _node=node):
                env.ev("prepare_begin", _node.idx)
                try:
                    await run_steps(env, _node, "prepare", _node.prepare)
                except BaseException as e:
                    env.ev("prepare_exc", _node.idx, type(e).__name__)
                    raise
                env.ev("prepare_end", _node.idx)

            methods["prepare"] = prepare
        if node.start is not None:

            async def start(self, _node=node):
                env.ev("start_begin", _node.idx)
                try:
                    await run_steps(env, _node, "start", _node.start)
                except BaseException as e:
                    env.ev("start_exc", _node.idx, type(e).__name__)
                    raise
                env.ev("start_end", _node.idx)

            methods["start"] = start
        if node.inherit:
            base = type(f"Base{node.idx}", (Component,), dict(methods))
            cls = type(f"Comp{node.idx}", (base,), {"__init__": __init__})
        else:
            cls = type(f"Comp{node.idx}", (Component,), {"__init__": __init__, **methods})
        classes[node.idx] = cls
        setattr(REFS, f"c{node.idx}", cls)
    return classes


def descendants(nodes, i):
    out = []
    for n in nodes:
        p = n.parent
        while p != -1:
            if p == i:
                out.append(n.idx)
                break
            p = nodes[p].parent
    return out


def path_of(nodes, i):
    parts = []
    while i != 0:
        parts.append(nodes[i].alias or f"n{i}")
        i = nodes[i].parent
    return ".".join(reversed(parts))
