"""C09 -- Task factories: inherited context, exact handle set, teardown waits, errors kept."""
from __future__ import annotations

import anyio

from .common import FAIL, OK, STUBS_COMMON, BodyErr, DeviationTape, Harness, P, flatten, guard, pick, run
from .ctree import RT

import symsched
from asphalt.core import Context, current_context, get_resources, start_background_task_factory  # noqa: E402

OUTCOMES = ["returns after 1 checkpoint", "still running when the owner is left (3 checkpoints)", "raises an Exception",
            "cancelled through the handle right after the spawn", "cancelled through the handle after 1 checkpoint",
            "returns at once (no checkpoint, no teardown callback of its own)",
            "blocks until it is cancelled (through its handle before the owner is left, or by a crashing sibling)",
            "returns after 1 checkpoint; the teardown callback of its own context then blocks until the task is cancelled through its handle",
            "cancelled through the handle after 1 checkpoint; while handling the cancellation its clean-up raises an Exception"]
SITES = ["owner context", "a child context of the owner", "another task running in an unrelated context"]
HANDLERS = ["no exception handler", "handler returns True", "handler returns False", "handler returns 1 (truthy, not True)"]


def cfg(tier):
    return (1, 5) if tier == "quick" else (2, 5)


def params(tier):
    D, L = cfg(tier)
    nt = 2
    ps = [P("ntask", 0, nt - 1), P("site", 0, 2), P("nested", 0, 1), P("handler", 0, 3), P("fstart", 0, 1)]
    for i in range(nt):
        ps += [P(f"api{i}", 0, 1), P(f"out{i}", 0, 8)]
    for j in range(D):
        ps += [P(f"gap{j}", 0, L), P(f"arm{j}", 0, 3)]
    return ps


@guard
def fn(a, tier):
    D, L = cfg(tier)
    ntmax = 2
    nt = 1 + pick(a["ntask"], ntmax)
    site, nested = pick(a["site"], 3), pick(a["nested"], 2)
    apis = [pick(a[f"api{i}"], 2) for i in range(nt)]
    outs = [pick(a[f"out{i}"], 9 if i == 0 else (3 if tier == "quick" else 5)) for i in range(nt)]
    handler_kind = pick(a["handler"], 4) if (2 in outs or 8 in outs) else 0
    fstart = pick(a["fstart"], 2)  # 1: factory started through the owner's METHOD while another (nested, short-lived) context is current
    tape = DeviationTape([(a[f"gap{j}"], a[f"arm{j}"]) for j in range(D)], L)
    log = []
    info = {"handles": {}, "handler_calls": [], "violations": []}
    errors = {i: BodyErr(f"task{i}") for i in range(nt)}
    Cancelled = symsched.Cancelled
    before_res, after_res = object(), object()
    fac_products = {}

    def handler(exc):
        info["handler_calls"].append(exc)
        return {1: True, 2: False, 3: 1}[handler_kind]

    def make(i):
        async def task():
            ctx = current_context()
            info[("parent", i)] = ctx.parent
            info[("sees", i)] = (dict(get_resources(RT[0])), dict(get_resources(RT[1])))
            info[("fac", i)] = (ctx.get_resource_nowait(RT[3], "beforefac", optional=True), ctx.get_resource_nowait(RT[2], "afterfac", optional=True))
            log.append(("begin", i))
            if outs[i] == 5:
                log.append(("ctx_closed", i))  # nothing of its own to tear down
                log.append(("end", i))
                return

            async def own_teardown():
                with anyio.CancelScope(shield=True):
                    await anyio.sleep(0)
                log.append(("ctx_closed", i))

            async def blocking_teardown():
                log.append(("td_begin", i))
                try:
                    await anyio.sleep_forever()
                except BaseException as e:
                    log.append(("saw", i, "cancel" if isinstance(e, Cancelled) else type(e).__name__))
                    raise
                finally:
                    log.append(("ctx_closed", i))

            ctx.add_teardown_callback(blocking_teardown if outs[i] == 7 else own_teardown)
            try:
                steps = {0: 1, 1: 3, 2: 1, 3: 2, 4: 3, 5: 0, 6: 0, 7: 1, 8: 3}[outs[i]]
                for _ in range(steps):
                    await anyio.sleep(0)
                if outs[i] == 6:
                    await anyio.sleep_forever()
                if outs[i] == 2:
                    raise errors[i]
            except BaseException as e:
                log.append(("saw", i, "cancel" if isinstance(e, Cancelled) else type(e).__name__))
                if outs[i] == 8 and isinstance(e, Cancelled):
                    log.append(("raising", i))
                    raise errors[i]  # e.g. a flush that fails while the cancelled task cleans up
                raise
            finally:
                log.append(("end", i))

        return task

    def observer(k):
        tf = info.get("tf")
        if tf is None or info.get("owner_left"):
            return
        current = tf.all_task_handles()
        spawned = info["handles"]
        for h in current:
            if not any(h is x for x in spawned.values()) and not info.get("spawning"):
                info["violations"].append(("unknown-handle-in-set", len(log)))
        for i, h in spawned.items():
            running = ("begin", i) in log and ("end", i) not in log
            if running and h not in current:
                info["violations"].append(("running-task-missing-from-set", i))
            if info.get(("waited", i)) and h in current:
                info["violations"].append(("finished-task-still-in-set", i))

    async def spawn_all(tf):
        for i in range(nt):
            info["spawning"] = True
            if apis[i] == 0:
                h = await tf.start_task(make(i), f"t{i}")
            else:
                h = tf.start_task_soon(make(i), f"t{i}")
            info["handles"][i] = h
            info["spawning"] = False
            tf.all_task_handles().clear()  # what the caller does with the returned set is the caller's business
            if h not in tf.all_task_handles() and ("end", i) not in log:
                info["violations"].append(("fresh-handle-missing-from-set", i))
            if outs[i] == 3:
                info[("live_at_cancel", i)] = ("end", i) not in log
                h.cancel()
            elif outs[i] in (4, 8):
                await anyio.sleep(0)
                info[("live_at_cancel", i)] = ("end", i) not in log
                h.cancel()

    async def waiter(i, tf):
        h = info["handles"][i]
        await h.wait_finished()
        info[("waited", i)] = True
        if h in tf.all_task_handles():
            info["violations"].append(("in-set-after-wait_finished", i))
        if ("begin", i) in log and ("ctx_closed", i) not in log:
            info["violations"].append(("wait_finished-returned-before-the-tasks-own-context-was-torn-down", i))
        log.append(("waited", i))

    async def owner_block(tg):
        async with Context() as owner:
            info["owner"] = owner
            owner.add_resource(before_res, "before", [RT[0]])
            owner.add_resource_factory(lambda: fac_products.setdefault("before", object()), "beforefac", types=[RT[3]])
            if fstart:
                async with Context():
                    tf = info["tf"] = await owner.start_background_task_factory(exception_handler=handler if handler_kind else None)
                # leaving that unrelated nested context must neither wait for nor shut down the owner's factory
            else:
                tf = info["tf"] = await start_background_task_factory(exception_handler=handler if handler_kind else None)
            owner.add_resource(after_res, "after", [RT[1]])
            owner.add_resource_factory(lambda: fac_products.setdefault("after", object()), "afterfac", types=[RT[2]])
            if site == 0:
                await spawn_all(tf)
            elif site == 1:
                async with Context() as child:
                    child.add_resource(object(), "childonly", [RT[1]])
                    await spawn_all(tf)
            else:
                done = anyio.Event()

                async def elsewhere():
                    async with Context(info["unrelated"]):
                        await spawn_all(tf)
                    done.set()

                tg.start_soon(elsewhere)
                await done.wait()
            for i in range(nt):
                tg.start_soon(waiter, i, tf)
            await anyio.sleep(0)
            # tasks that block until cancelled are released through their handles before the owner is left
            will_crash = (2 in outs or 8 in outs) and handler_kind not in (1, 3)
            for i in range(nt):
                if outs[i] == 6 and not will_crash:
                    info[("live_at_cancel", i)] = ("end", i) not in log
                    info["handles"][i].cancel()
                if outs[i] == 7 and not will_crash:
                    for _ in range(20):
                        if ("td_begin", i) in log:
                            break
                        await anyio.sleep(0)
                    info[("live_at_cancel", i)] = ("td_begin", i) in log and ("ctx_closed", i) not in log
                    info["handles"][i].cancel()
            if will_crash and (6 in outs or 7 in outs):
                # a declined exception must take the blocked sibling down by itself: nobody releases it
                await anyio.sleep(50)
            log.append(("leaving",))
        info["owner_left"] = True
        log.append(("left",))
        # late spawns on the torn-down factory must fail and leave no handle behind
        for late in ("soon", "start"):
            try:
                if late == "soon":
                    tf.start_task_soon(make(0), "late")
                else:
                    await tf.start_task(make(0), "late")
                info["violations"].append((f"late-spawn-{late}-accepted", 0))
            except RuntimeError:
                pass
            if tf.all_task_handles():
                info["violations"].append((f"late-spawn-{late}-left-a-handle", 0))

    async def main():
        async with anyio.create_task_group() as tg:
            async with Context() as unrelated:
                info["unrelated"] = unrelated
                unrelated.add_resource(object(), "unrelated", [RT[0]])
                if nested:
                    async with Context():
                        await owner_block(tg)
                else:
                    await owner_block(tg)

    def on_start(k):
        k.observers.append(observer)

    _, exc, k = run(main, chooser=tape, on_start=on_start)
    summary = {"tasks": [f"{['start_task', 'start_task_soon'][apis[i]]}: {OUTCOMES[outs[i]]}" for i in range(nt)],
               "spawned_from": SITES[site], "owner": "nested" if nested else "child of an unrelated root", "handler": HANDLERS[handler_kind], "factory_started_via": "owner.start_background_task_factory() while a nested context was current" if fstart else "shortcut in the owner",
               "schedule": tape.taken}
    raisers = [i for i in range(nt) if outs[i] == 2 or (outs[i] == 8 and ("raising", i) in log)]
    expect_escape = bool(raisers) and handler_kind not in (1, 3)
    if info["violations"]:
        v = info["violations"][0]
        return FAIL(f"handle-set:{v[0]}:api={['start_task', 'start_task_soon'][apis[v[1]]] if v[1] < nt else '-'}:out={outs[v[1]] if v[1] < nt else '-'}",
                    f"{info['violations'][:4]} log={log}", summary)
    if expect_escape:
        if exc is None:
            return FAIL("exception-swallowed-although-handler-did-not-accept", log, summary)
        leaves = flatten(exc)
        if not all(any(x is errors[i] for i in raisers) for x in leaves if not isinstance(x, Cancelled)) or not any(
            any(x is errors[i] for i in raisers) for x in leaves
        ):
            return FAIL("foreign-exception-escaped", repr(exc), summary)
        return OK(summary, True)  # everything is cancelled by the crash: nothing more to judge
    if exc is not None:
        return FAIL(f"unexpected-exception:{type(flatten(exc)[0]).__name__}", f"{exc!r} log={log}", summary)
    if len(info["handler_calls"]) != (len(raisers) if handler_kind else 0) or any(
        not any(c is errors[i] for i in raisers) for c in info["handler_calls"]
    ):
        return FAIL("handler-call-count", f"{info['handler_calls']}", summary)
    pos = {e: i for i, e in enumerate(log)}
    for i in range(nt):
        if info.get(("parent", i)) is None and outs[i] == 3:
            continue  # cancelled before its first step: never ran (allowed)
        if ("begin", i) in pos:
            par = info[("parent", i)]
            fctx = par  # the factory's own context: a service-task context whose parent is the owner
            if fctx is None or fctx.parent is not info["owner"]:
                return FAIL(f"task-context-not-under-factory-context:site={site}", repr(par), summary)
            sees0, sees1 = info[("sees", i)]
            if set(sees0) != {"before", "unrelated"} or sees0["before"] is not before_res or set(sees1) != set():
                return FAIL(f"task-sees-wrong-resources:site={site}", f"{sees0} {sees1}", summary)
            fb, fa = info[("fac", i)]
            if fb is None or fa is not None:
                return FAIL(f"task-sees-wrong-resource-factories:site={site}:before={'visible' if fb is not None else 'missing'}:after={'visible' if fa is not None else 'hidden'}", "", summary)
        if ("end", i) in pos and pos[("end", i)] > pos[("left",)]:
            return FAIL("owner-left-before-task-ended", log, summary)
        if ("begin", i) in pos and ("end", i) not in pos:
            return FAIL("task-never-ended", log, summary)
        saw_cancel = ("saw", i, "cancel") in pos
        if outs[i] in (0, 1, 2, 5) and saw_cancel:
            return FAIL(f"task-cancelled-although-not-requested:out={outs[i]}", log, summary)
        if outs[i] in (3, 4, 6, 7, 8) and ("begin", i) in pos and info.get(("live_at_cancel", i)) and not saw_cancel:
            return FAIL(f"cancel-through-handle-lost:out={outs[i]}:api={apis[i]}", log, summary)
        if ("waited", i) not in pos:
            return FAIL(f"wait_finished-never-returned:out={outs[i]}", log, summary)
    if info["tf"].all_task_handles():
        return FAIL("handles-left-at-the-end", "", summary)
    if k.live_tasks():
        return FAIL("task-alive-after-exit", [t.name for t in k.live_tasks()], summary)
    return OK(summary, True)


H = Harness(
    prop="C09",
    name="T-factory",
    fn=fn,
    params=params,
    cube=lambda tier: 7,
    title="tasks spawned through a TaskFactory from different sites, with every outcome, handler verdict and owner teardown while tasks run",
    bound_text=lambda tier: f"1-2 tasks x {{start_task, start_task_soon}} x outcome{{" + "; ".join(OUTCOMES) + "} x spawned from {"
    + "; ".join(SITES) + "} x " + "/".join(HANDLERS) + " x owner root-level/nested x factory started by the shortcut / by the owner's method from inside another nested context; every task has an async teardown callback in its own context; observer after EVERY scheduler step; late spawns after teardown; FIFO with "
    + ("one deviation within 5 decisions; the second task only returns / keeps running / raises" if tier == "quick" else "two deviations (each within 5 decisions); the second task has one of the first five outcomes"),
    oracle="task context's parent chain = factory context -> owner, never the spawner's; tasks see exactly the resources present when the factory "
    "started; at every scheduler step: running tasks are in all_task_handles(), tasks whose wait_finished() returned are not, no foreign handles; "
    "wait_finished() returns for every outcome and only after the task's own context has been torn down; cancel() affects only its task; leaving the owner waits for running tasks (none sees a "
    "cancellation); handler called once per escaping Exception, swallowed iff truthy else it leaves the root; late spawns raise and leave no handle",
    outside="handlers that raise; more than 3 tasks",
    stubs=STUBS_COMMON,
)


# ------------------------------------------------------------------------------ T-two
JOBKINDS = ["coroutine function", "callable object with async __call__", "UNHASHABLE callable object (dataclass with async __call__)",
            "unhashable callable object taking task_status"]


def two_params(tier):
    return [P("handler", 0, 1), P("jobkind", 0, 3), P("api", 0, 1), P("order", 0, 1), P("group", 0, 2)]


@guard
def two_fn(a, tier):
    """Two task factories started on ONE context at different times: each has its own snapshot and its own handle set; jobs may be any callable."""
    from dataclasses import dataclass

    handler_kind, jobkind, api, order = pick(a["handler"], 2), pick(a["jobkind"], 4), pick(a["api"], 2), pick(a["order"], 2)
    # group 1 / 2: task "two" ends by raising an ExceptionGroup of two / of one Exception(s); the (accepting) handler must get THAT object, once
    group = pick(a["group"], 3)
    if group:
        handler_kind = 1
    seen = {}
    problems = []
    gate = {}
    handled = []
    the_group = ExceptionGroup("batch failed", [ValueError("row 1"), KeyError("row 2")][: 3 - group])

    def handler(exc):
        handled.append(exc)
        return True

    async def body(tag):
        seen[tag] = (sorted(get_resources(RT[0])), current_context().parent)
        await gate["go"].wait()
        if group and tag == "two":
            raise the_group

    def make_job(tag):
        if jobkind == 0:
            async def job():
                await body(tag)
            return job
        if jobkind == 1:
            class Job:
                async def __call__(self):
                    await body(tag)
            return Job()
        if jobkind == 2:
            @dataclass
            class RecordJob:
                tag: str

                async def __call__(self):
                    await body(self.tag)
            return RecordJob(tag)

        @dataclass
        class StatusJob:
            tag: str

            async def __call__(self, *, task_status):
                task_status.started()
                await body(self.tag)
        return StatusJob(tag)

    async def spawn(tf, tag):
        job = make_job(tag)
        if api == 0 or jobkind == 3:
            return await tf.start_task(job, tag)
        return tf.start_task_soon(job, tag)

    async def main():
        gate["go"] = anyio.Event()
        async with Context() as owner:
            owner.add_resource(object(), "early", [RT[0]])
            kw = {"exception_handler": handler} if handler_kind else {}
            tf1 = await owner.start_background_task_factory(**kw)
            owner.add_resource(object(), "late", [RT[0]])
            tf2 = await owner.start_background_task_factory(**kw)
            pairs = [(tf1, "one"), (tf2, "two")]
            if order:
                pairs.reverse()
            handles = {}
            for tf, tag in pairs:
                handles[tag] = await spawn(tf, tag)
            await anyio.wait_all_tasks_blocked()
            for tf, tag in pairs:
                got = tf.all_task_handles()
                if got != {handles[tag]}:
                    problems.append((f"all_task_handles-of-factory-{tag}", f"{sorted(h.name for h in got)} expected [{tag!r}]"))
            gate["go"].set()
            for h in handles.values():
                await h.wait_finished()
            if tf1.all_task_handles() or tf2.all_task_handles():
                problems.append(("handles-left", ""))
            seen["ctxs"] = (seen.get("one", (None, None))[1], seen.get("two", (None, None))[1], owner)

    _, exc, k = run(main)
    summary = {"exception_handler": ["none", "the same function for both factories"][handler_kind], "job": JOBKINDS[jobkind],
               "api": ["start_task", "start_task_soon"][api], "spawn_order": "two, one" if order else "one, two",
               "task_two_raises": ["nothing", "an ExceptionGroup of two Exceptions", "an ExceptionGroup of one Exception"][group]}
    if exc is not None:
        return FAIL(f"two:raised:{type(flatten(exc)[0]).__name__}:job={jobkind}", repr(exc), summary)
    if problems:
        return FAIL(f"two:{problems[0][0]}", problems[0][1], summary)
    if group and (len(handled) != 1 or handled[0] is not the_group):
        return FAIL(f"two:escaping-exception-group-not-passed-to-the-handler-exactly-once-as-itself:members={3 - group}", repr(handled), summary)
    if seen.get("one", (None,))[0] != ["early"] or seen.get("two", (None,))[0] != ["early", "late"]:
        return FAIL("two:snapshot-of-the-wrong-moment", f"one sees {seen.get('one')} two sees {seen.get('two')}", summary)
    c1, c2, owner = seen["ctxs"]
    if c1 is None or c2 is None or c1.parent is not owner or c2.parent is not owner:
        return FAIL("two:factory-contexts", "", summary)
    if k.live_tasks():
        return FAIL("two:task-alive", [t.name for t in k.live_tasks()], summary)
    return OK(summary, True)


TWO = Harness(
    prop="C09",
    name="T-two",
    fn=two_fn,
    params=two_params,
    cube=lambda tier: 0,
    title="two task factories started on one context at different times; jobs given as functions or (unhashable) callable objects",
    bound_text=lambda tier: "factory 1 started, a resource added, factory 2 started (no handler / the same handler function for both); one task per factory, spawned in either "
    "order by start_task / start_task_soon; the job is a " + " / ".join(JOBKINDS),
    oracle="both factory contexts hang under the owner; each task sees the snapshot of ITS factory's start; each all_task_handles() is exactly its own task; "
    "wait_finished() returns; nothing escapes, nothing left",
    outside="-",
    stubs=STUBS_COMMON,
)


# ------------------------------------------------------------------------------ T-interrupted
def intr_params(tier):
    return [P("kind", 0, 1), P("api", 0, 1), P("delay", 0, 2), P("gap0", 0, 6), P("arm0", 0, 3)]


@guard
def intr_fn(a, tier):
    """The teardown of a factory's owning (non-root) context is INTERRUPTED by a cancellation aimed at something else: the factory's running tasks are not cancelled by that."""
    kind, api, delay = pick(a["kind"], 2), pick(a["api"], 2), pick(a["delay"], 3)
    tape = DeviationTape([(a["gap0"], a["arm0"])], 6)
    log = []
    release = {}
    Cancelled = symsched.Cancelled

    async def subjob():
        log.append("subjob begin")
        try:
            await release["ev"].wait()
            await anyio.sleep(0)
            log.append("subjob finished its work")
        except BaseException as e:
            log.append("subjob saw " + ("cancel" if isinstance(e, Cancelled) else type(e).__name__))
            raise

    async def owner_scope(started):
        # a non-root context that owns a task factory with one running task
        async with Context():
            tf = await start_background_task_factory()
            if api == 0:
                await tf.start_task(subjob, "subjob")
            else:
                tf.start_task_soon(subjob, "subjob")
            started.set()
            await anyio.sleep_forever()

    async def main():
        release["ev"] = anyio.Event()
        async with Context() as root:
            started = anyio.Event()
            if kind == 0:
                # the owner is a task of an outer factory; it is cancelled through ITS handle
                outer = await root.start_background_task_factory()
                handle = await outer.start_task(lambda: owner_scope(started), "owner")
                await started.wait()
                for _ in range(delay):
                    await anyio.sleep(0)
                handle.cancel()
                await handle.wait_finished()
            else:
                # the owner is a request handler running under a cancel scope (a timeout) of its own
                async with anyio.create_task_group() as tg:
                    scope = anyio.CancelScope()

                    async def handler():
                        with scope:
                            await owner_scope(started)

                    tg.start_soon(handler)
                    await started.wait()
                    for _ in range(delay):
                        await anyio.sleep(0)
                    scope.cancel()
            log.append("owner gone")
            for _ in range(3):
                await anyio.sleep(0)
            release["ev"].set()
            for _ in range(4):
                await anyio.sleep(0)

    _, exc, k = run(main, chooser=tape)
    summary = {"owner": ["a task of an outer factory, cancelled through its handle", "a handler under its own cancel scope, which is cancelled"][kind],
               "spawn": ["start_task", "start_task_soon"][api], "delay": delay, "schedule": tape.taken}
    if exc is not None:
        return FAIL(f"interrupted:raised:{type(flatten(exc)[0]).__name__}", f"{exc!r} log={log}", summary)
    if "subjob saw cancel" in log:
        return FAIL(f"interrupted:task-of-the-factory-cancelled-by-a-cancellation-aimed-at-its-owner:kind={kind}", f"{log}", summary)
    if "subjob begin" in log and "subjob finished its work" not in log:
        return FAIL("interrupted:task-never-finished", f"{log}", summary)
    if k.live_tasks():
        return FAIL("interrupted:task-alive", [t.name for t in k.live_tasks()], summary)
    return OK(summary, "subjob begin" in log)


INTR = Harness(
    prop="C09",
    name="T-interrupted",
    fn=intr_fn,
    params=intr_params,
    cube=lambda tier: 2,
    title="a cancellation aimed at the owner of a nested factory does not cancel the factory's running task",
    bound_text=lambda tier: "a non-root context owning a factory with one task waiting for an event; the owner is a task of an outer factory cancelled through its handle, or a handler "
    "whose own cancel scope is cancelled, 0-2 checkpoints after the spawn; the task is released afterwards; FIFO with one deviation in 6 decisions",
    oracle="the task never sees a cancellation ('cancel() ends only that task' / the owner's teardown 'does not cancel' running tasks) and finishes its work; nothing is left",
    outside="-",
    stubs=STUBS_COMMON,
)


# ------------------------------------------------------------------------------ T-early / T-double-fault
def early_params(tier):
    return [P("scenario", 0, 1), P("handler", 0, 2), P("api", 0, 1), P("when", 0, 2)]


@guard
def early_fn(a, tier):
    """(0) a task that takes task_status and raises BEFORE calling started(); (1) a declined task exception raised while another failure is already
    taking the application down."""
    scenario, handler_kind, api, when = pick(a["scenario"], 2), pick(a["handler"], 3), pick(a["api"], 2), pick(a["when"], 3)
    Cancelled = symsched.Cancelled
    early, late, crash = ValueError("fails during its start-up"), ValueError("could not flush while being cancelled"), RuntimeError("service task failed")
    handled, out = [], {}

    def handler(exc):
        handled.append(exc)
        return False if handler_kind == 1 else None

    async def starting_job(*, task_status):
        for _ in range(when):
            await anyio.sleep(0)
        raise early

    async def flusher():
        try:
            await anyio.sleep_forever()
        except Cancelled:
            raise late  # its clean-up fails while the application is going down

    async def crasher():
        for _ in range(when):
            await anyio.sleep(0)
        raise crash

    async def main():
        async with Context() as root:
            tf = await root.start_background_task_factory(**({"exception_handler": handler} if handler_kind else {}))
            if scenario == 0:
                try:
                    await tf.start_task(starting_job, "job")
                    out["start"] = None
                except BaseException as e:  # noqa
                    out["start"] = e
                out["handles"] = len(tf.all_task_handles())
            else:
                if api == 0:
                    await tf.start_task(flusher, "flusher")
                else:
                    tf.start_task_soon(flusher, "flusher")
                await root.start_service_task(crasher, "crasher")
                await anyio.sleep(50)

    _, exc, k = run(main)
    summary = {"scenario": ["start_task() of a task that raises before task_status.started()", "a service task crashes; a factory task's clean-up then raises and the handler declines"][scenario],
               "handler": ["none", "returns False", "returns None"][handler_kind], "checkpoints_before_the_failure": when}
    if scenario == 0:
        # the handler is consulted (and declines) or absent: the spawner gets the task's own exception
        if out.get("start") is not early:
            return FAIL(f"early:start_task-did-not-raise-the-tasks-own-exception:{type(out.get('start')).__name__}", repr(out.get("start")), summary)
        if out.get("handles"):
            return FAIL("early:handle-left-behind", "", summary)
        if exc is not None and not any(x is early for x in flatten(exc)):
            return FAIL(f"early:foreign-exception-left-the-root-context:{type(flatten(exc)[0]).__name__}", repr(exc), summary)
        return OK(summary, True)
    leaves = flatten(exc) if exc is not None else []
    if not any(x is crash for x in leaves):
        return FAIL("double:service-task-crash-did-not-leave-the-root-context", repr(exc), summary)
    if not any(x is late for x in leaves):
        return FAIL("double:declined-task-exception-never-left-the-root-context", repr(exc), summary)
    if handler_kind and sum(1 for h in handled if h is late) != 1:
        return FAIL("double:handler-not-consulted-exactly-once", repr(handled), summary)
    return OK(summary, True)


EARLY = Harness(
    prop="C09",
    name="T-early",
    fn=early_fn,
    params=early_params,
    cube=lambda tier: 0,
    title="a task failing before task_status.started(); a declined task exception arriving while another failure is already propagating",
    bound_text=lambda tier: "(0) start_task() of a job that raises after 0-2 checkpoints without calling started(); (1) a service task of the root context crashes after 0-2 checkpoints while a "
    "factory task (start_task / start_task_soon) is blocked, whose clean-up then raises; no handler / a handler returning False / None",
    oracle="(0) start_task() raises the job's own exception object and leaves no handle; (1) both the crash and the declined task exception are among what leaves the root context, "
    "the handler having been consulted exactly once",
    outside="-",
    stubs=STUBS_COMMON,
)

HARNESSES = [H, TWO, INTR, EARLY]
