"""C07 -- A failing or stalling component aborts startup cleanly with a precise error."""
from __future__ import annotations

import anyio

from .common import FAIL, OK, STUBS_COMMON, DeviationTape, Harness, P, guard, pick, run
from symkit.choose import resumed
from .ctree import RT, Env, NodeSpec, build_classes, descendants, path_of, shapes

import symsched
from asphalt.core import Component, ComponentStartError, Context, start_component  # noqa: E402

SHAPES_Q = shapes(1) + shapes(2) + shapes(3) + shapes(4)  # 1+1+2+6
SHAPES_T = SHAPES_Q + shapes(5)
PHASES = ["creating", "preparing", "starting"]


class Boom(Exception):
    pass


def fault_cfg(tier):
    return (1, 8) if tier == "quick" else (1, 12)


def fault_params(tier):
    D, L = fault_cfg(tier)
    shp = SHAPES_Q if tier == "quick" else SHAPES_T
    ps = [P("shape", 0, len(shp) - 1), P("fnode", 0, 3 if tier == "quick" else 4), P("phase", 0, 2), P("moment", 0, 1), P("svc", 0, 4)]
    # quick: ONE of {plain exception, ComponentStartError instance, one-member group, type given by reference, timeout=None}; thorough: the full product
    ps += [P("flavour", 0, 5)] if tier == "quick" else [P("exckind", 0, 3), P("byref", 0, 1), P("notimeout", 0, 1)]
    for j in range(D):
        ps += [P(f"gap{j}", 0, L), P(f"arm{j}", 0, 4)]
    return ps


@guard
def fault_fn(a, tier):
    D, L = fault_cfg(tier)
    shp = SHAPES_Q if tier == "quick" else SHAPES_T
    parents = shp[pick(a["shape"], len(shp))]
    n = len(parents)
    fnode = pick(a["fnode"], n)
    phase = pick(a["phase"], 3)
    moment = pick(a["moment"], 2) if phase else 0
    if tier == "quick":
        flavour = pick(a["flavour"], 6)
        exckind = flavour if flavour < 3 else (3 if flavour == 5 else 0)
    else:
        flavour = None
        exckind = pick(a["exckind"], 4)
    # 0: nothing; 1: other nodes start a service slowly in start(); 2: ... whose startup stalls forever;
    # 3: other nodes start a task factory and a task with a slow start-up in it
    # 4: other nodes are blocked in get_resource() for something nobody provides when the failure strikes
    svc = pick(a["svc"], 5)
    # byref: the failing component's type is given as a "module:attr" string; notimeout: timeout=None, the documented way of disabling the start timeout
    if flavour is not None:
        byref, notimeout = int(flavour == 3), int(flavour == 4)
    else:
        byref, notimeout = pick(a["byref"], 2), pick(a["notimeout"], 2)
    tape = DeviationTape([(a[f"gap{j}"], a[f"arm{j}"]) for j in range(D)], L)
    env = Env()
    # exckind 3: the component fails inside add_resource(..., teardown_callback=...) with a ResourceConflict (not while being created: plain exception there)
    conflict = exckind == 3 and phase != 0
    exc = [Boom("boom"), ComponentStartError("starting", "bogus.path", Component),
           ExceptionGroup("raised by a task group of the component's own", [Boom("the only member")]), Boom("boom")][exckind]
    nodes = []
    # a start-up that stalls forever must not sit below the failing start(): that start() would never be reached
    tmp = [NodeSpec(i, parents[i]) for i in range(n)]
    below = set(descendants(tmp, fnode)) if phase == 2 else set()
    for i in range(n):
        # odd components register a callback that returns a non-coroutine awaitable, all of them also one through a shared @context_teardown function
        prep = [("tdaw" if i % 2 else "td", f"prep{i}"), ("ctxtd", f"ct{i}")] + ([("tdnested", "N")] if i == 0 else []) + [("cp",), ("pub", f"res{i}", object(), "default", [RT[i]]), ("cp",)]
        start = [("cp",), ("td", f"start{i}"), ("cp",)]
        if svc == 4:
            if i != fnode and i not in below:
                start.insert(1, ("wait", "never", RT[6], "never"))
        elif svc == 3 and i != fnode:
            start.insert(1, ("tf", f"job{i}", 2))
        elif svc and i != fnode and not (svc == 2 and i in below):
            start.insert(1, ("svc", f"svc{i}", 2, svc == 2, "callable" if i % 2 else "cancel"))
        node = NodeSpec(i, parents[i], prep, start)
        if i == fnode:
            node.by_ref = bool(byref)
            if phase == 0:
                node.init_raises = exc
            else:
                steps = prep if phase == 1 else start
                steps.insert(0 if moment == 0 else ((4 if i == 0 else 3) if phase == 1 else 2), ("pubtwice",) if conflict else ("raise", exc))
        nodes.append(node)
    classes = build_classes(env, nodes)
    out = {}

    async def main():
        async with Context() as ctx:
            try:
                await start_component("harness.ctree:REFS.c0" if (byref and fnode == 0) else classes[0], {}, timeout=None if notimeout else 1000)
                out["outcome"] = None
            except BaseException as e:  # noqa
                out["outcome"] = e
            k = symsched.kernel()
            out["live"] = [t.name for t in k.live_tasks() if t is not k.current]
            # the surrounding context stays usable: a publication made now must work (nothing of the aborted start-up listens any more)
            try:
                ctx.add_resource(object(), "published_after_the_failure", [RT[5]])
                out["after"] = None
            except BaseException as e2:  # noqa
                out["after"] = e2
            out["mark"] = len(env.log)
            for _ in range(5):
                await anyio.sleep(0)
            await anyio.sleep(2000)  # past the start timeout: a forgotten watchdog would fire here
            out["late"] = env.log[out["mark"]:]
            env.ev("leaving")

    _, escaped, k = run(main, chooser=tape)
    summary = {"parents": parents, "failing_component": fnode, "phase": PHASES[phase], "moment": ["first statement", "after a checkpoint"][moment],
               "exception": "ResourceConflict raised by its own add_resource(..., teardown_callback=...)" if conflict else type(exc).__name__, "failing_component_declared_by": "'module:attr' string" if byref else "class object", "others_start_service": ["no", "slow startup", "startup stalls forever", "a task factory task with a slow start-up", "no - they are blocked in get_resource() for a resource nobody provides"][svc], "schedule": tape.taken, "timeout": None if notimeout else 1000}
    if escaped is not None:
        return FAIL(f"fault:escaped:{type(escaped).__name__}", f"{escaped!r} log={env.log}", summary)
    e = out["outcome"]
    log = env.log
    if not isinstance(e, ComponentStartError) or e is exc:
        return FAIL(f"fault:wrong-error-type:{type(e).__name__}:phase={PHASES[phase]}:exc={type(exc).__name__}", f"{e!r} log={log}", summary)
    exp_path = path_of(nodes, fnode)
    if (e.phase, e.path, e.component_type) != (PHASES[phase], exp_path, classes[fnode]):
        return FAIL(f"fault:imprecise:{PHASES[phase]}:exc={type(exc).__name__}",
                    f"got ({e.phase!r},{e.path!r},{e.component_type}) expected ({PHASES[phase]!r},{exp_path!r},{classes[fnode]})", summary)
    if conflict:
        from asphalt.core import ResourceConflict

        if not isinstance(e.__cause__, ResourceConflict):
            return FAIL(f"fault:cause-lost:{PHASES[phase]}:conflict", repr(e.__cause__), summary)
        if ("td", "callback-of-the-refused-resource") in log:
            return FAIL("fault:teardown-callback-of-a-resource-that-was-refused-ran-at-exit", "", summary)
    elif e.__cause__ is not exc:
        return FAIL(f"fault:cause-lost:{PHASES[phase]}", repr(e.__cause__), summary)
    if out.get("after") is not None:
        return FAIL(f"fault:surrounding-context-unusable-after-the-failure:{type(out['after']).__name__}", repr(out["after"]), summary)
    anc = []
    p = parents[fnode]
    while p != -1:
        anc.append(p)
        p = parents[p]
    if any(("start_begin", x) in log for x in anc) or (phase < 2 and ("start_begin", fnode) in log):
        return FAIL("fault:ancestor-start-ran", log, summary)
    if phase == 0 and any(ev[0] in ("prepare_begin", "start_begin") for ev in log):
        return FAIL("fault:method-ran-although-construction-failed", log, summary)
    # only the surrounding root context's own task group host may still be around; no component task
    if any("Starting component" in nm or "_watch" in nm for nm in out["live"]):
        return FAIL("fault:startup-task-still-alive", out["live"], summary)
    late = [ev for ev in out["late"] if ev[0] != "svc_end"]
    if late:
        return FAIL("fault:activity-after-start_component-raised", late, summary)
    # services that did start stay owned by the surrounding context and are stopped with it; a
    # service whose start was interrupted must be gone by now
    begun = [ev[1] for ev in log if ev[0] == "svc_begin"]
    registered = [ev[2] for ev in log if ev[0] == "svc_registered"]
    for label in begun:
        if label not in registered and log.index(("svc_end", label)) > log.index(("leaving",)) if ("svc_end", label) in log else True:
            if ("svc_end", label) not in log or log.index(("svc_end", label)) > out["mark"]:
                return FAIL("fault:interrupted-service-start-left-running", f"{label}: {log}", summary)
    for ev in log:
        if ev[0] == "svc_action" and ev[1] not in registered:
            return FAIL("fault:teardown-action-invoked-for-a-service-whose-start-never-completed", f"{ev[1]}: {log}", summary)
    # one reverse order over callbacks AND service tasks: a service is stopped after everything registered after its start completed
    # and before everything registered before that (also by siblings, while its start-up was in flight)
    for label in registered:
        at = next(j for j, ev in enumerate(log) if ev[0] == "svc_registered" and ev[2] == label)
        if ("svc_end", label) not in log:
            return FAIL("fault:registered-service-never-stopped", label, summary)
        end = log.index(("svc_end", label))
        for j, ev in enumerate(log):
            if ev[0] == "td_registered" and ("td", ev[1]) in log:
                ran_at = log.index(("td", ev[1]))
                if (j < at and ran_at < end) or (j > at and ran_at > end):
                    return FAIL("fault:service-task-not-stopped-in-reverse-registration-order",
                                f"{label} vs callback {ev[1]} (registered {'before' if j < at else 'after'} the service's start completed): {log}", summary)
    reg = [ev[1] for ev in log if ev[0] == "td_registered"]
    ran = [ev[1] for ev in log if ev[0] == "td"]
    if "N" in reg:
        # the root's callback registers a further one while the teardown runs: that one runs next
        if "late-N" not in ran or "N" not in ran or ran.index("late-N") != ran.index("N") + 1:
            return FAIL("fault:callback-registered-during-the-teardown-after-a-failed-start-up-not-run", f"ran={ran}", summary)
        ran = [x for x in ran if x != "late-N"]
    if ran != list(reversed(reg)) or any(log.index(("td", x)) < log.index(("leaving",)) for x in ran):
        return FAIL("fault:registered-callbacks-not-torn-down-lifo-at-exit", f"registered={reg} ran={ran}", summary)
    if k.live_tasks():
        return FAIL("fault:task-alive-after-exit", [t.name for t in k.live_tasks()], summary)
    return OK(summary, nontrivial=n > 1)


FAULT = Harness(
    prop="C07",
    name="F-fault",
    fn=fault_fn,
    params=fault_params,
    cube=lambda tier: 4,
    title="one component fails in one phase at one moment; every tree shape; deviation-bounded schedules",
    bound_text=lambda tier: f"all rooted trees with 1..{4 if tier == 'quick' else 5} components x failing component x phase{{creating,preparing,starting}} x "
    "moment{first statement, after a checkpoint} x exception{plain Exception, a ComponentStartError instance, an ExceptionGroup with one member} x type given as class / 'module:attr' string x timeout{1000, None} x other components "
    "{no service, start a service task with a slow start-up, with a start-up that never completes, start a task-factory task with a slow start-up, wait in get_resource() for a resource nobody provides}; FIFO schedule with "
    + ("one deviation within the first 8 decisions" if tier == "quick" else "one deviation within the first 12 decisions, trees of up to 5 components"),
    oracle="ComponentStartError(phase, path, class) with __cause__ the original exception object; no start() of any ancestor; no startup/watchdog "
    "task alive and nothing of the tree logged after start_component raised (context kept open past the start timeout); an interrupted "
    "service start is gone and its teardown action is never invoked; a publication on the surrounding context right after the failure works; everything registered before the failure (callbacks and service tasks, cancelled or stopped "
    "through a callable) is torn down in ONE reverse order when the surrounding context is left",
    outside="two simultaneous failures; BaseException failures; trees with more components",
    stubs=STUBS_COMMON,
)


# ------------------------------------------------------------------------------ F-time
def time_params(tier):
    hi = 6 if tier == "quick" else 9
    return [P("svc", 0, 5), P("dp", 1, hi), P("da", 1, hi), P("db", 1, hi), P("dg", 1, hi), P("ds", 1, hi), P("T", 1, 4 * hi)]


def time_pre(tier):
    return ["dp + max(da + dg, db) + ds != T"]


def time_fn(a, tier):
    dp, da, db, dg, ds, T = a["dp"], a["da"], a["db"], a["dg"], a["ds"], a["T"]
    svc = pick(a["svc"], 6)
    env = Env()
    # root(prepare dp, start ds) -> a (start da after its child g: start dg), b (start db [+ stalled service start])
    STALLS = {1: ("svc", "stall", 1, True), 2: ("stall", "anext"), 3: ("stall", "aclose"), 4: ("stall", "event"), 5: ("stall", "sleep")}
    b_start = [("sleep", db)] + ([STALLS[svc]] if svc else [])
    nodes = [
        NodeSpec(0, -1, [("sleep", dp)], [("sleep", ds)]),
        NodeSpec(1, 0, None, [("sleep", da)]),
        NodeSpec(2, 0, None, b_start),
        NodeSpec(3, 1, None, [("sleep", dg)]),
    ]
    classes = build_classes(env, nodes)
    out = {}

    async def main():
        async with Context():
            try:
                await start_component(classes[0], {}, timeout=T)
                out["res"] = "ok"
            except TimeoutError:
                out["res"] = "timeout"
            except BaseException as e:  # noqa
                out["res"] = e
            out["at"] = anyio.current_time()
            out["n"] = len([e for e in env.log if e[0] != "svc_end"])
            await anyio.sleep(100)
            out["n2"] = len([e for e in env.log if e[0] != "svc_end"])
            out["ends"] = [e for e in env.log if e[0].endswith("_end") and e[0] != "svc_end"]

    _, escaped, k = run(main)
    if escaped is not None:
        return FAIL(f"time:escaped:{type(escaped).__name__}", repr(escaped))
    summary = {"tree": "root(prepare dp, start ds) -> a(start da) -> g(start dg); root -> b(start db" + (", then stalls forever in: " + ["", "a service task start-up", "await anext(async generator)", "await agen.aclose()", "Event.wait()", "sleep_forever()"][svc] + ")" if svc else ")"),
               "durations_and_timeout": "symbolic integers"}
    with resumed():
        return time_oracle(svc, dp, da, db, dg, ds, T, out, summary)


def time_oracle(svc, dp, da, db, dg, ds, T, out, summary):
    fin = dp + max(da + dg, db) + ds
    if svc:
        # b never finishes: the only admissible outcome is the timeout
        ok = (out["res"] == "timeout") and out["n2"] == out["n"] and out["at"] == T
        return OK(summary, True) if ok else FAIL("time:stalled-startup-not-timed-out-cleanly", "", summary)
    if fin < T:
        ok = (out["res"] == "ok") and len(out["ends"]) == 5 and out["n2"] == out["n"] and out["at"] == fin
        return OK(summary, True) if ok else FAIL("time:in-time-startup-affected-by-timeout", "", summary)
    ok = (out["res"] == "timeout") and out["n2"] == out["n"] and out["at"] == T
    return OK(summary, True) if ok else FAIL("time:late-startup-not-timed-out-cleanly", "", summary)


TIME = Harness(
    prop="C07",
    name="F-time",
    fn=guard(time_fn),
    params=time_params,
    extra_pre=time_pre,
    cube=lambda tier: 1,
    title="symbolic phase durations against a symbolic start timeout (virtual integer clock, timer ordering decided by z3)",
    bound_text=lambda tier: f"4-component tree, five phase durations in 1..{6 if tier == 'quick' else 9} ticks and timeout in 1..{24 if tier == 'quick' else 36}, all symbolic "
    "(exact ties between finishing time and timeout excluded); optionally a component that then stalls forever in a service start-up / anext() of an async generator / aclose() / Event.wait() / sleep_forever()",
    oracle="finishing time from the reference recurrence f = prepare + max(children) + start: f < T => success at time f with the complete log, "
    "nothing later; f > T (or stalled) => TimeoutError exactly at T and no tree activity afterwards",
    outside="exact ties (the two real backends differ there); timeout <= 0; float durations",
    stubs=STUBS_COMMON + ("durations are symbolic integers handed to anyio.sleep(); the kernel's timer arithmetic runs under tracing",),
    tree_check=False,
    realize_samples=True,
)


# ------------------------------------------------------------------------------ F-factory
def fac_params(tier):
    L = 8 if tier == "quick" else 12
    return [P("fsteps", 0, 1), P("delay", 0, 2), P("deep", 0, 1), P("notimeout", 0, 1), P("gap0", 0, L), P("arm0", 0, 3)]


@guard
def fac_fn(a, tier):
    """Exactly one component fails - because the async resource factory it triggers raises - while another component is waiting for that very generation."""
    L = 8 if tier == "quick" else 12
    fsteps, delay, deep, notimeout = 1 + pick(a["fsteps"], 2), pick(a["delay"], 3), pick(a["deep"], 2), pick(a["notimeout"], 2)
    tape = DeviationTape([(a["gap0"], a["arm0"])], L)
    env = Env()
    boom = Boom("factory failed")
    calls = []

    async def factory():
        calls.append(env.misc.get(("req", anyio.get_current_task().id)))
        me = calls[-1]
        for _ in range(fsteps):
            await anyio.sleep(0)
        raised.append(me)
        raise boom

    raised = []

    def mark(env_, node):
        env.misc[("req", anyio.get_current_task().id)] = node.idx

    # root publishes the factory in prepare(); 'api' and 'worker' (the latter optionally one level deeper) both need the resource in start()
    api = NodeSpec(1, 0, [], [("call", mark), ("wait", "r", RT[0], "shared")], alias="api")
    mid = NodeSpec(2, 0, [], [("td", "mid")], alias="mid")
    worker = NodeSpec(3, 2 if deep else 0, [], [("cp",)] * delay + [("call", mark), ("wait", "r", RT[0], "shared")], alias="worker")
    root = NodeSpec(0, -1, [("fac", "F", factory, "shared", [RT[0]]), ("td", "root")], [])
    nodes = [root, api, mid, worker]
    classes = build_classes(env, nodes)
    out = {}

    async def main():
        async with Context():
            try:
                await start_component(classes[0], {}, timeout=None if notimeout else 1000)
                out["outcome"] = None
            except BaseException as e:  # noqa
                out["outcome"] = e
            out["mark"] = len(env.log)
            for _ in range(5):
                await anyio.sleep(0)
            out["late"] = env.log[out["mark"]:]

    _, escaped, k = run(main, chooser=tape)
    summary = {"factory_checkpoints_before_it_raises": fsteps, "worker_delay": delay, "worker_below": "mid" if deep else "root", "timeout": None if notimeout else 1000,
               "schedule": tape.taken, "factory_called_by": list(calls)}
    if escaped is not None:
        return FAIL(f"factory:escaped:{type(escaped).__name__}", repr(escaped), summary)
    e = out["outcome"]
    if not calls:
        return FAIL("factory:never-called", "", summary)
    if len(raised) != 1:
        return OK(summary, nontrivial=False)  # the factory raised in two components: two failures, outside the statement
    failing = raised[0]
    if not isinstance(e, ComponentStartError):
        return FAIL(f"factory:wrong-error-type:{type(e).__name__}", f"{e!r} log={env.log}", summary)
    if (e.phase, e.path, e.component_type) != ("starting", path_of(nodes, failing), classes[failing]) or e.__cause__ is not boom:
        return FAIL("factory:imprecise", f"got ({e.phase!r},{e.path!r},{e.component_type}, cause {e.__cause__!r}), the factory was run by node {failing}", summary)
    if ("start_begin", 0) in env.log:
        return FAIL("factory:ancestor-start-ran", env.log, summary)
    if out["late"]:
        return FAIL("factory:activity-after-start_component-raised", out["late"], summary)
    reg = [ev[1] for ev in env.log if ev[0] == "td_registered"]
    ran = [ev[1] for ev in env.log if ev[0] == "td"]
    if ran != list(reversed(reg)):
        return FAIL("factory:registered-callbacks-not-torn-down", f"{reg} {ran}", summary)
    if k.live_tasks():
        return FAIL("factory:task-alive-after-exit", [t.name for t in k.live_tasks()], summary)
    return OK(summary, True)


FACTORY = Harness(
    prop="C07",
    name="F-factory",
    fn=fac_fn,
    params=fac_params,
    cube=lambda tier: 3,
    title="the failure is an async resource factory raising inside one component's start() while another component waits for the same generation",
    bound_text=lambda tier: "root publishes an async factory that raises after 1-2 checkpoints; components 'api' and 'worker' (a sibling, or one level deeper) both request the "
    "resource in start(), the worker after 0-2 checkpoints; timeout 1000 / None; FIFO with one deviation within the first " + ("8" if tier == "quick" else "12") + " decisions",
    oracle="as long as the factory raised in one component only (a second call that is cancelled before it raises is no failure): ComponentStartError('starting', that component's path and class) with the factory's exception as cause - not a "
    "group, no second error from the component that was merely waiting; no ancestor start(); nothing runs afterwards; callbacks torn down LIFO",
    outside="the factory raising in both components (two failures)",
    stubs=STUBS_COMMON,
)


# ------------------------------------------------------------------------------ F-again
def again_params(tier):
    return [P("phase", 0, 2), P("where", 0, 1), P("runs", 0, 1)]


@guard
def again_fn(a, tier):
    """The same configuration object used for several start-ups in one process: the configured component fails - and is reported - every time."""
    phase, where, runs = pick(a["phase"], 3), pick(a["where"], 2), 2 + pick(a["runs"], 2)
    boom = Boom("configured component fails")
    log = []

    class Bad(Component):
        def __init__(self, **kw):
            log.append("bad created")
            if phase == 0:
                raise boom

        async def prepare(self):
            if phase == 1:
                raise boom

        async def start(self):
            if phase == 2:
                raise boom

    class Good(Component):
        async def start(self):
            log.append("good started")

    class Mid(Component):
        pass

    class Top(Component):
        async def start(self):
            log.append("root started")

    if where == 0:
        config = {"components": {"good": {"type": Good}, "bad": {"type": Bad}}}
        exp_path = "bad"
    else:
        config = {"components": {"good": {"type": Good}, "mid": {"type": Mid, "components": {"bad": {"type": Bad}}}}}
        exp_path = "mid.bad"
    outcomes = []

    async def one():
        async with Context():
            try:
                await start_component(Top, config, timeout=1000)
                outcomes.append(None)
            except BaseException as e:  # noqa
                outcomes.append(e)

    for _ in range(runs):
        _, escaped, _k = run(one)
        if escaped is not None:
            return FAIL(f"again:escaped:{type(escaped).__name__}", repr(escaped))
    summary = {"failing_phase": PHASES[phase], "failing_component_configured_at": exp_path, "start_ups_from_the_same_configuration_object": runs}
    for n_, e in enumerate(outcomes):
        if not isinstance(e, ComponentStartError) or (e.phase, e.path, e.component_type) != (PHASES[phase], exp_path, Bad) or e.__cause__ is not boom:
            return FAIL(f"again:start-up-{n_ + 1}-of-{runs}-from-the-same-config-object:{'returned-normally' if e is None else type(e).__name__}",
                        f"outcomes={outcomes!r} log={log}", summary)
    if "root started" in log:
        return FAIL("again:ancestor-start-ran", log, summary)
    return OK(summary, True)


AGAIN = Harness(
    prop="C07",
    name="F-again",
    fn=again_fn,
    params=again_params,
    cube=lambda tier: 0,
    title="several start-ups from ONE configuration object: the configured failing component is reported every time",
    bound_text=lambda tier: "a component declared in the external configuration (below the root / below a configured container) fails while being created / prepared / started; "
    "start_component is called 2-3 times with the same configuration dict",
    oracle="every start-up raises ComponentStartError(phase, path, class) with the original exception as cause; the root's start() never runs",
    outside="-",
    stubs=STUBS_COMMON,
)


# ------------------------------------------------------------------------------ F-nested-timeout
def nt_params(tier):
    return [P("outer", 0, 2), P("host", 0, 1), P("stall", 0, 1), P("inner", 1, 6)]


def nt_fn(a, tier):
    """A component starts a tree of its own from start() with its OWN timeout; that tree stalls (or not)."""
    from symkit.choose import resumed

    outer_kind, host_is_child, stall = pick(a["outer"], 3), pick(a["host"], 2), pick(a["stall"], 2)
    inner_t = a["inner"]  # symbolic number of ticks
    outer_t = [None, 1000, 50][outer_kind]
    log = []

    class Slow(Component):
        async def start(self):
            log.append("inner start")
            if stall:
                await anyio.sleep_forever()
            await anyio.sleep(1)
            log.append("inner started")

    class Host(Component):
        async def start(self):
            log.append("host start")
            await start_component(Slow, {}, timeout=inner_t)
            log.append("host done")

    class Top(Component):
        def __init__(self):
            self.add_component("host", Host)

        async def start(self):
            log.append("top start")

    out = {}

    async def main():
        async with Context():
            try:
                await start_component(Top if host_is_child else Host, {}, timeout=outer_t)
                out["res"] = None
            except BaseException as e:  # noqa
                out["res"] = e
            out["at"] = anyio.current_time()
            n = len(log)
            await anyio.sleep(100)
            out["late"] = log[n:]

    _, escaped, k = run(main)
    summary = {"outer_timeout": outer_t, "host": "a child of the root" if host_is_child else "the root itself", "nested_tree": "stalls forever" if stall else "needs 1 tick",
               "nested_timeout": "symbolic, 1..6 ticks"}
    if escaped is not None:
        return FAIL(f"nested-timeout:escaped:{type(escaped).__name__}", repr(escaped), summary)
    e = out["res"]
    with resumed():
        in_time = (not stall) and bool(inner_t > 1)
        at_ok_fail = bool(out["at"] == inner_t)
    if in_time:
        if e is not None or "inner started" not in log or ("top start" not in log and host_is_child):
            return FAIL("nested-timeout:in-time-nested-startup-affected", f"{e!r} {log}", summary)
        return OK(summary, True)
    if not stall:
        return OK(summary, nontrivial=False)  # exact tie between the nested finishing time and its timeout: not judged
    path = "host" if host_is_child else ""
    if not isinstance(e, ComponentStartError) or (e.phase, e.path) != ("starting", path) or not isinstance(e.__cause__, TimeoutError):
        return FAIL(f"nested-timeout:not-reported-as-the-hosts-failure:{type(e).__name__}:outer={outer_t}", f"{e!r} cause={getattr(e, '__cause__', None)!r} log={log}", summary)
    if not at_ok_fail:
        return FAIL("nested-timeout:raised-at-the-wrong-time", f"at={out['at']}", summary)
    if out["late"] or "top start" in log or "host done" in log:
        return FAIL("nested-timeout:startup-work-continued", f"{log} late={out['late']}", summary)
    return OK(summary, True)


NTIME = Harness(
    prop="C07",
    name="F-nested-timeout",
    fn=guard(nt_fn),
    params=nt_params,
    cube=lambda tier: 3,
    title="a nested start_component() call with its own (symbolic) timeout inside a component's start()",
    bound_text=lambda tier: "host component (the root, or a child of the root) calls start_component(Inner, timeout=t) from start(), t symbolic in 1..6 ticks; Inner stalls forever or needs "
    "one tick; outer timeout None / 1000 / 50",
    oracle="stalled nested tree: exactly at time t the outer start_component raises ComponentStartError('starting', host) caused by TimeoutError, no ancestor start(), nothing runs "
    "afterwards; nested tree finishing in time: unaffected",
    outside="exact ties",
    stubs=STUBS_COMMON + ("the nested timeout is a symbolic integer handed to the real watchdog; timer order decided by z3",),
    tree_check=False,
    realize_samples=True,
)

HARNESSES = [FAULT, FACTORY, AGAIN, NTIME, TIME]
