"""C10 -- Events reach exactly the active subscribers, exactly once, in dispatch order."""
from __future__ import annotations

import warnings
from dataclasses import dataclass

import anyio

from .common import FAIL, OK, STUBS_COMMON, BodyErr, Harness, P, guard, pick, run

import symsched
from asphalt.core import Event, Signal, SignalQueueFull, stream_events, wait_event  # noqa: E402


@dataclass
class Ev(Event):
    n: int


@dataclass(frozen=True)
class Source:  # a value object: the two instances used below compare (and hash) equal
    ident: int = 1
    a = Signal(Ev)
    b = Signal(Ev)

    def __len__(self):  # ... and a container that is currently empty: instances are falsy
        return 0


QSIZES = [(1, 2), (0, 2)]  # distinct per stream: a SignalQueueFull warning names the queue size; 0 = hand-off only
QSIZE = [1, 2]  # set per scenario
# channels: "a"/"b" of the source, "oa" = signal `a` of ANOTHER, equal instance
CONFIGS = [(("a",), None), (("a", "b"), "even"), (("a", "oa"), None)]
CLOSE = ["leave normally", "exception inside the block", "consumer task cancelled"]


class Stop(Exception):
    pass


def options(state):
    """state: per stream dict(open, cfg, queue(list of raw), waiting)."""
    out = []
    for j in (0, 1):
        st = state[j]
        if not st["open"] and not st["used"]:
            out += [("open", j, c) for c in ((0, 1) if PLAIN["on"] else (0, 1, 2))]
        elif st["open"]:
            if any(passes(st, e) for e in st["queue"]) and not st["waiting"]:
                out.append(("take", j))
            elif not st["waiting"]:
                out.append(("wait", j))
            out += [("close", j, m) for m in (0, 1, 2)]
    out += [("dispatch", "a"), ("dispatch", "b")] + ([] if PLAIN["on"] else [("dispatch", "oa")])
    if not state["we"]["used"]:
        out.append(("wait_event", 0))
    return out


def passes(st, e):
    return CONFIGS[st["cfg"]][1] is None or e[1] % 2 == 0


def decode(a, K):
    QSIZE[:] = QSIZES[pick(a["q0"], 2)]
    state = {j: {"open": False, "used": False, "cfg": 0, "queue": [], "waiting": False} for j in (0, 1)}
    state["we"] = {"used": False, "waiting": False}
    ops = []
    n = 0
    for i in range(K):
        opts = options(state)
        op = opts[pick(a[f"o{i}"], len(opts))]
        ops.append(op)
        # light-weight model update, only to know which ops are meaningful next
        if op[0] == "open":
            state[op[1]].update(open=True, used=True, cfg=op[2], queue=[], waiting=False)
        elif op[0] == "close":
            state[op[1]].update(open=False, waiting=False)
        elif op[0] == "dispatch":
            n += 1
            for j in (0, 1):
                st = state[j]
                if st["open"] and op[1] in CONFIGS[st["cfg"]][0]:
                    if st["waiting"]:
                        if passes(st, (op[1], n)):
                            st["waiting"] = False
                    elif len(st["queue"]) < QSIZE[j]:
                        st["queue"].append((op[1], n))
        elif op[0] == "take":
            st = state[op[1]]
            while st["queue"]:
                e = st["queue"].pop(0)
                if passes(st, e):
                    break
        elif op[0] == "wait":
            st = state[op[1]]
            st["queue"] = []  # non-passing leftovers are consumed by the waiting generator
            st["waiting"] = True
        elif op[0] == "wait_event":
            state["we"].update(used=True, waiting=True)
    return ops


def max_opts():
    return 2 + 1 + 3 + 2 + 1 + 3 + 2 + 1  # generous upper bound: 15


class StreamActor:
    def __init__(self, j, src, cfg, other):
        self.j, self.src, self.cfg, self.other = j, src, cfg, other
        self.cmds = []
        self.wake = anyio.Event()
        self.got = []
        self.pending = None
        self.finished = anyio.Event()
        self.scope = anyio.CancelScope()
        self.exit = None

    async def run(self, *, task_status):
        names, flt = CONFIGS[self.cfg]
        signals = [getattr(self.other, "a") if nm == "oa" else getattr(self.src, nm) for nm in names]
        filt = (lambda e: "even" if e.n % 2 == 0 else "") if flt else None  # passing = returning a TRUTHY value, not necessarily True
        try:
            with self.scope:
                async with stream_events(signals, filt, max_queue_size=QSIZE[self.j]) as stream:
                    task_status.started()
                    while True:
                        await self.wake.wait()
                        self.wake = anyio.Event()
                        while self.cmds:
                            cmd, done = self.cmds.pop(0)
                            if cmd == "next":
                                self.pending = True
                                ev = await stream.__anext__()
                                self.pending = False
                                self.got.append(ev)
                                done.set()
                            elif cmd == "leave":
                                done.set()
                                return
                            elif cmd == "raise":
                                done.set()
                                raise Stop()
            self.exit = "cancelled" if self.scope.cancelled_caught else "normal"
        except Stop:
            self.exit = "exception"
        finally:
            self.finished.set()

    def send(self, cmd):
        done = anyio.Event()
        self.cmds.append((cmd, done))
        self.wake.set()
        return done


PLAIN = {"on": False}  # the K=5 harness uses the smaller alphabet (queue sizes 1/2, one instance, two configs)


def params(tier):
    return [P("q0", 0, 1)] + [P(f"o{i}", 0, 17) for i in range(4)]


def params5(tier):
    return [P(f"o{i}", 0, 14) for i in range(5)]


@guard
def fn5(a, tier):
    PLAIN["on"] = True
    try:
        a = dict(a)
        a["q0"] = 0
        return _fn(a, tier, 5)
    finally:
        PLAIN["on"] = False


@guard
def fn(a, tier):
    return _fn(a, tier, 4)


def _fn(a, tier, K):
    ops = decode(a, K)
    src, other = Source(), Source()
    model = {j: None for j in (0, 1)}  # None | dict(cfg, queue, waiting, got, open)
    actors = {}
    dispatched = []
    problems = []
    we = {"result": None, "task_done": False, "started_at": None}

    def m_dispatch(ch, ev, expect_warn):
        for j in (0, 1):
            m = model[j]
            if m and m["open"] and ch in CONFIGS[m["cfg"]][0]:
                if m["waiting"]:
                    if passes(m, (ch, ev.n)):
                        m["waiting"] = False
                        m["got"].append(ev)
                    # a non-passing event handed to the waiting receiver is consumed by the filter
                elif len(m["queue"]) < QSIZE[j]:
                    m["queue"].append(ev)
                else:
                    expect_warn.append(QSIZE[j])

    async def main():
        async with anyio.create_task_group() as tg:
            n = 0
            for step, op in enumerate(ops):
                if op[0] == "open":
                    j, cfg = op[1], op[2]
                    actors[j] = StreamActor(j, src, cfg, other)
                    await tg.start(actors[j].run)
                    model[j] = {"cfg": cfg, "queue": [], "waiting": False, "got": [], "open": True}
                elif op[0] == "dispatch":
                    n += 1
                    ev = Ev(n)
                    dispatched.append((op[1], ev))
                    exp_warn = []
                    m_dispatch(op[1], ev, exp_warn)
                    if we["started_at"] is not None and we["result"] is None and op[1] == "a" and ev.n % 2 == 1 and "expect" not in we:
                        we["expect"] = ev
                    with warnings.catch_warnings(record=True) as w:
                        warnings.simplefilter("always")
                        try:
                            if op[1] == "oa":
                                other.a.dispatch(ev)
                            else:
                                getattr(src, op[1]).dispatch(ev)
                                # the equal instance's channel `b` is never subscribed by anybody
                                other.b.dispatch(Ev(-n))
                        except Exception as e:
                            problems.append((f"dispatch-raised:{type(e).__name__}", f"step {step}: {e!r}"))
                            return
                    got_warn = sorted(int(str(x.message).split("(")[1].split(")")[0]) for x in w if issubclass(x.category, SignalQueueFull))
                    if got_warn != sorted(exp_warn):
                        problems.append((f"queue-full-warnings:got={got_warn}:expected={sorted(exp_warn)}", f"step {step} {op}"))
                        return
                    exp_src, exp_topic = (other, "a") if op[1] == "oa" else (src, op[1])
                    if ev.source is not exp_src or ev.topic != exp_topic or not isinstance(ev.time, (int, float)):
                        problems.append(("event-not-stamped", f"{ev.source!r} {ev.topic!r}"))
                        return
                elif op[0] == "take":
                    j = op[1]
                    m = model[j]
                    while m["queue"]:
                        e = m["queue"].pop(0)
                        if passes(m, ("", e.n)):
                            m["got"].append(e)
                            break
                    done = actors[j].send("next")
                    await done.wait()
                elif op[0] == "wait":
                    j = op[1]
                    model[j]["queue"] = []
                    model[j]["waiting"] = True
                    actors[j].send("next")
                elif op[0] == "close":
                    j, mode = op[1], op[2]
                    model[j]["open"] = False
                    model[j]["waiting"] = False
                    if mode == 2 or actors[j].pending:
                        actors[j].scope.cancel()
                    elif mode == 0:
                        actors[j].send("leave")
                    else:
                        actors[j].send("raise")
                    await actors[j].finished.wait()
                elif op[0] == "wait_event":
                    we["started_at"] = n

                    async def waiter():
                        we["result"] = await src.a.wait_event(lambda e: e.n % 2)  # the bound signal's shortcut, with a filter returning 1 / 0
                        we["task_done"] = True

                    tg.start_soon(waiter)
                await anyio.wait_all_tasks_blocked()
                # compare what every stream has yielded so far
                for j in (0, 1):
                    if model[j] is not None:
                        got, exp = actors[j].got, model[j]["got"]
                        if len(got) != len(exp) or any(x is not y for x, y in zip(got, exp)):
                            problems.append((f"stream{j}-yielded-wrong-events:after={op[0]}",
                                             f"step {step} {op}: got {[e.n for e in got]} expected {[e.n for e in exp]}"))
                            return
            # final drain of every open stream
            for j in (0, 1):
                m = model[j]
                if m and m["open"] and not m["waiting"]:
                    while any(passes(m, ("", e.n)) for e in m["queue"]):
                        while m["queue"]:
                            e = m["queue"].pop(0)
                            if passes(m, ("", e.n)):
                                m["got"].append(e)
                                break
                        await actors[j].send("next").wait()
                    got, exp = actors[j].got, m["got"]
                    if len(got) != len(exp) or any(x is not y for x, y in zip(got, exp)):
                        problems.append((f"stream{j}-yielded-wrong-events:final-drain", f"got {[e.n for e in got]} expected {[e.n for e in exp]}"))
                        return
            if we["started_at"] is not None:
                exp = we.get("expect")
                if (we["result"] is None) != (exp is None) or (exp is not None and we["result"] is not exp):
                    problems.append(("wait_event-wrong-result", f"got {we['result']!r} expected {exp!r}"))
            tg.cancel_scope.cancel()

    _, exc, k = run(main)
    summary = {"history": [" ".join(str(x) for x in op) for op in ops],
               "stream_configs": "queue sizes %s; cfg0=[a],no filter; cfg1=[a,b],even; cfg2=[a, a of an equal other instance]" % (tuple(QSIZE),)}
    if exc is not None:
        return FAIL(f"raised:{type(exc).__name__}", repr(exc), summary)
    if problems:
        return FAIL(problems[0][0], problems[0][1], summary)
    return OK(summary, nontrivial=any(o[0] == "dispatch" for o in ops) and any(o[0] == "open" for o in ops))


H = Harness(
    prop="C10",
    name="E-history",
    fn=fn,
    params=params,
    cube=lambda tier: 3,
    title="histories of open / dispatch / take / blocking wait / close (3 ways) / wait_event over two streams and two channels",
    bound_text=lambda tier: f"4 operations then a final drain; 2 streams with queue sizes (1 or 0) and 2, each opened once with "
    "config {[a], no filter}, {[a,b], even filter} or {[a, a-of-an-equal-other-instance]}; dispatches on a/b of one value-object instance and on `a` of "
    "another instance that compares equal; closing by normal exit / "
    "exception in the block / cancellation of the consumer; one wait_event with a filter",
    oracle="after every step each stream has yielded exactly the model's sequence (eligible = dispatched on one of its signals while open and passing "
    "its filter, minus those its own full queue dropped), same objects, dispatch order; SignalQueueFull warnings name exactly the full "
    "subscribers' queue sizes; dispatch never raises whatever state subscribers are in; events stamped with source/topic/time; wait_event "
    "returns the first passing event dispatched after it began; another instance's dispatches are never seen",
    outside="more than 2 streams; filters that raise; longer histories; non-FIFO schedules (consumers are driven to quiescence after every step)",
    stubs=STUBS_COMMON,
)

H5 = Harness(
    prop="C10",
    name="E-history5",
    fn=fn5,
    params=params5,
    cube=lambda tier: 2,
    tiers=("thorough",),
    title="histories of FIVE operations with the smaller alphabet",
    bound_text=lambda tier: "5 operations then a final drain; queue sizes 1 and 2, configs {[a], no filter} / {[a,b], even filter}, dispatches on a/b, three ways of closing, one wait_event",
    oracle=H.oracle,
    outside=H.outside,
    stubs=STUBS_COMMON,
)

# ------------------------------------------------------------------------------ E-queue
def queue_params(tier):
    return [P("q1", 0, 6), P("q2", 0, 6), P("b", 0, 8), P("taken", 0, 3)]


@guard
def queue_fn(a, tier):
    q1, q2, b, taken = pick(a["q1"], 7), pick(a["q2"], 7), pick(a["b"], 9), pick(a["taken"], 4)
    src = Source()
    out = {}

    async def main():
        async with stream_events([src.a], max_queue_size=q1) as s1, stream_events([src.a], max_queue_size=q2) as s2:
            sent = [Ev(i) for i in range(b)]
            got1, got2 = [], []
            with warnings.catch_warnings(record=True) as w:
                warnings.simplefilter("always")
                for i, ev in enumerate(sent):
                    src.a.dispatch(ev)
                    if i == 0 and taken:
                        # the first subscriber consumes `taken` events after the first dispatch (if it has them)
                        for _ in range(min(taken, 1 if q1 >= 1 else 0)):
                            got1.append(await s1.__anext__())
            out["warn"] = sorted(int(str(x.message).split("(")[1].split(")")[0]) for x in w if issubclass(x.category, SignalQueueFull))
            with anyio.move_on_after(1):
                async for ev in s1:
                    got1.append(ev)
            with anyio.move_on_after(1):
                async for ev in s2:
                    got2.append(ev)
            out["got1"], out["got2"], out["sent"] = got1, got2, sent

    _, exc, _k = run(main)
    summary = {"queue_sizes": [q1, q2], "burst": b, "first_subscriber_reads_one_after_the_first_dispatch": bool(taken and q1 >= 1 and b >= 1)}
    if exc is not None:
        return FAIL(f"queue:raised:{type(exc).__name__}", repr(exc), summary)
    freed = 1 if (taken and q1 >= 1 and b >= 1) else 0
    exp1 = out["sent"][: min(b, q1 + freed)] if q1 >= 1 else []
    exp2 = out["sent"][: min(b, q2)]
    if len(out["got1"]) != len(exp1) or any(x is not y for x, y in zip(out["got1"], exp1)):
        return FAIL(f"queue:first-subscriber:q={q1}:b={b}", f"got {[e.n for e in out['got1']]} expected {[e.n for e in exp1]}", summary)
    if len(out["got2"]) != len(exp2) or any(x is not y for x, y in zip(out["got2"], exp2)):
        return FAIL(f"queue:second-subscriber:q={q2}:b={b}", f"got {[e.n for e in out['got2']]} expected {[e.n for e in exp2]}", summary)
    exp_warn = sorted([q1] * (b - len(exp1)) + [q2] * (b - len(exp2)))
    if out["warn"] != exp_warn:
        return FAIL(f"queue:warnings:q={q1},{q2}:b={b}", f"got {out['warn']} expected {exp_warn}", summary)
    return OK(summary, nontrivial=b > 0)


QUEUE = Harness(
    prop="C10",
    name="E-queue",
    fn=queue_fn,
    params=queue_params,
    cube=lambda tier: 1,
    title="queue sizes and burst length: only the full subscriber loses only the overflowing events",
    bound_text=lambda tier: "two subscribers with queue sizes 0..6 each, a burst of 0..8 dispatches without the consumers running; the first consumer optionally reads one event after the first dispatch",
    oracle="each subscriber receives exactly the first min(burst, its capacity) events, in order; one SignalQueueFull warning per dropped event, naming that subscriber's queue size",
    outside="larger queues/bursts",
    stubs=STUBS_COMMON,
)

HARNESSES = [H, H5, QUEUE]


# ------------------------------------------------------------------------------ E-finished
import copy as _copy  # noqa: E402

FINISH = ["await stream.aclose()", "a timeout around the loop fires while it waits for the next event", "its filter raises and the subscriber handles that",
          "break out of the loop"]


class Plain:
    a = Signal(Ev)
    b = Signal(Ev)


def fin_params(tier):
    return [P("how", 0, 3), P("owner", 0, 1), P("clone", 0, 1), P("nafter", 1, 3), P("filt", 0, 1)]


@guard
def fin_fn(a, tier):
    """A subscriber whose iterator has FINISHED but which is still inside its `async with stream_events(...)` block, a later subscriber of the
    same signal, and a subscriber of the same signal on a shallow COPY of the owner (taken after the signal had been used)."""
    from symkit.choose import is_concrete, resumed

    how, owner_kind, clone = pick(a["how"], 4), pick(a["owner"], 2), pick(a["clone"], 2)
    filt = pick(a["filt"], 2)

    class WatchList:
        """A filter that is a callable OBJECT and, being an empty container when the stream is opened, falsy."""

        def __init__(self):
            self.rejected = set()

        def __len__(self):
            return len(self.rejected)

        def __call__(self, e):
            if e.n == 11:
                self.rejected.add(e.n)
                return False
            return True

    na = a["nafter"]
    if not is_concrete(na):
        with resumed():
            na = na - 1
    else:
        na = na - 1
    nafter = 1 + pick(na, 3)
    src = [Plain, Source][owner_kind]()
    src.a  # the bound signal exists before the copy is taken
    twin = _copy.copy(src) if clone else None
    got = {"A": [], "B": [], "C": []}
    sent = {"src": [], "twin": []}
    problems = []

    async def main():
        async with anyio.create_task_group() as tg:
            a_done, release_a = anyio.Event(), anyio.Event()

            async def sub_a(*, task_status):
                def flt(e):
                    if how == 2 and e.n == 2:
                        raise ValueError("bad event")
                    return True

                async with src.a.stream_events(flt) as stream:
                    task_status.started()
                    try:
                        if how == 1:
                            with anyio.move_on_after(5):
                                async for ev in stream:
                                    got["A"].append(ev)
                        else:
                            async for ev in stream:
                                got["A"].append(ev)
                                if how == 0:
                                    await stream.aclose()
                                    break
                                if how == 3:
                                    break
                    except ValueError:
                        pass
                    a_done.set()
                    await release_a.wait()  # ... and stays inside the block

            async def sub(tag, signal, *, task_status):
                async with signal.stream_events(WatchList() if (filt and tag == "B") else None) as stream:
                    task_status.started()
                    async for ev in stream:
                        got[tag].append(ev)

            def dispatch(signal, key, n):
                ev = Ev(n)
                try:
                    signal.dispatch(ev)
                except Exception as e:  # noqa
                    problems.append((f"dispatch-raised:{type(e).__name__}:finished-by={how}", repr(e)))
                sent[key].append(ev)
                return ev

            await tg.start(sub_a)
            await tg.start(sub, "B", src.a)
            if clone:
                await tg.start(sub, "C", twin.a)
            dispatch(src.a, "src", 1)
            await anyio.wait_all_tasks_blocked()
            if how == 2:
                dispatch(src.a, "src", 2)  # the filter raises on this one
            if how == 1:
                await anyio.sleep(10)  # the subscriber's timeout fires
            await a_done.wait()
            for i in range(nafter):
                with warnings.catch_warnings():
                    warnings.simplefilter("ignore")
                    dispatch(src.a, "src", 10 + i)
                if clone:
                    dispatch(twin.a, "twin", 20 + i)
                await anyio.wait_all_tasks_blocked()
            release_a.set()
            await anyio.wait_all_tasks_blocked()
            tg.cancel_scope.cancel()

    _, exc, _k = run(main)
    summary = {"first_subscriber_finished_by": FINISH[how], "owner": ["plain class", "falsy value object"][owner_kind], "events_after_it_finished": nafter,
               "subscriber_on_a_shallow_copy_of_the_owner": bool(clone),
               "second_subscribers_filter": "a falsy callable object rejecting event 11" if filt else None}
    if exc is not None:
        return FAIL(f"finished:raised:{type(exc).__name__}", repr(exc), summary)
    if problems:
        return FAIL("finished:" + problems[0][0], problems[0][1], summary)
    exp_b = [e for e in sent["src"] if not (filt and e.n == 11)]
    if filt and (len(got["B"]) != len(exp_b) or any(x is not y for x, y in zip(got["B"], exp_b))):
        return FAIL("finished:stream-did-not-yield-exactly-the-events-passing-its-filter:falsy-callable-filter", f"B got {[e.n for e in got['B']]} expected {[e.n for e in exp_b]}", summary)
    if not filt and (len(got["B"]) != len(sent["src"]) or any(x is not y for x, y in zip(got["B"], sent["src"]))):
        return FAIL(f"finished:another-subscriber-of-the-signal-lost-events:finished-by={how}", f"B got {[e.n for e in got['B']]} of {[e.n for e in sent['src']]}", summary)
    if [e.n for e in got["A"]] != [1]:
        return FAIL("finished:first-subscriber", f"{[e.n for e in got['A']]}", summary)
    if clone:
        if len(got["C"]) != len(sent["twin"]) or any(x is not y for x, y in zip(got["C"], sent["twin"])):
            return FAIL("finished:stream-on-the-copys-signal-did-not-yield-exactly-the-copys-events", f"C got {[e.n for e in got['C']]} expected {[e.n for e in sent['twin']]}", summary)
        if any(e.source is not twin for e in sent["twin"]) or any(e.source is not src for e in sent["src"]):
            return FAIL("finished:event-not-stamped-with-the-dispatching-instance", "", summary)
    return OK(summary, True)


FIN = Harness(
    prop="C10",
    name="E-finished",
    fn=fin_fn,
    params=fin_params,
    cube=lambda tier: 0,
    title="a subscriber that finished its iterator but is still inside the block; a stream on a shallow copy of the owner",
    bound_text=lambda tier: "first subscriber of src.a finishes by {" + "; ".join(FINISH) + "} and stays inside its block while 1-3 more events are dispatched; a second subscriber of "
    "src.a subscribed later, unfiltered or filtered by a callable object that is falsy when the stream is opened; optionally a subscriber of copy.copy(src).a (copy taken after src.a was first used) with dispatches on both instances; owner plain / falsy value object",
    oracle="dispatch never raises; the second subscriber yields every src.a event; the copy's stream yields exactly the copy's events; sources are the dispatching instances",
    outside="what the finished subscriber's queue holds (judged by E-history / E-queue)",
    stubs=STUBS_COMMON,
)
HARNESSES.append(FIN)


# ------------------------------------------------------------------------------ E-relay
def relay_params(tier):
    return [P("mode", 0, 1), P("owner", 0, 1), P("n", 1, 3)]


@guard
def relay_fn(a, tier):
    """(0) an event object that is dispatched a second time, on another signal (a relay / fan-in); (1) a bound signal that is still in use after its owner is gone."""
    import gc

    from symkit.choose import is_concrete, resumed

    mode, owner_kind = pick(a["mode"], 2), pick(a["owner"], 2)
    nn = a["n"]
    if not is_concrete(nn):
        with resumed():
            nn = nn - 1
    else:
        nn = nn - 1
    n = 1 + pick(nn, 3)
    cls = [Plain, Source][owner_kind]
    seen = {"first": [], "second": []}
    problems = []

    async def main():
        async with anyio.create_task_group() as tg:
            sensor, hub = cls(), Plain()
            sig_first, sig_second = sensor.a, hub.b

            async def listen(tag, signal, *, task_status):
                async with signal.stream_events() as stream:
                    task_status.started()
                    async for ev in stream:
                        seen[tag].append((ev.n, ev.source, ev.topic))  # what the subscriber sees when the event is yielded

            await tg.start(listen, "first", sig_first)
            await tg.start(listen, "second", sig_second)
            if mode == 1:
                del sensor
                gc.collect()
            for i in range(n):
                ev = Ev(i)
                try:
                    sig_first.dispatch(ev)
                    await anyio.wait_all_tasks_blocked()
                    if mode == 0:
                        sig_second.dispatch(ev)  # the very same event object, relayed
                        await anyio.wait_all_tasks_blocked()
                except Exception as e:  # noqa
                    problems.append((f"dispatch-raised:{type(e).__name__}", repr(e)))
            seen["hub"] = hub
            seen["sensor"] = None if mode == 1 else sensor
            tg.cancel_scope.cancel()

    _, exc, _k = run(main)
    summary = {"scenario": ["every event is relayed: dispatched again, as the same object, on a signal of another instance", "the owner of the first signal is garbage before the dispatches"][mode],
               "owner": ["plain class", "falsy value object"][owner_kind], "events": n}
    if exc is not None:
        return FAIL(f"relay:raised:{type(exc).__name__}", repr(exc), summary)
    if problems:
        return FAIL("relay:" + problems[0][0], problems[0][1], summary)
    exp_first = [(i, seen["sensor"], "a") for i in range(n)]
    if [x[0] for x in seen["first"]] != list(range(n)):
        return FAIL(f"relay:subscriber-did-not-get-the-events-dispatched-on-its-signal:owner-gone={mode}", f"{seen['first']}", summary)
    if mode == 0:
        if any(g[1] is not e[1] or g[2] != e[2] for g, e in zip(seen["first"], exp_first)):
            return FAIL("relay:first-dispatch-stamp", f"{seen['first']}", summary)
        exp_second = [(i, seen["hub"], "b") for i in range(n)]
        got = seen["second"]
        if len(got) != n or any(g[0] != e[0] or g[1] is not e[1] or g[2] != e[2] for g, e in zip(got, exp_second)):
            return FAIL("relay:relayed-event-not-stamped-with-the-second-dispatching-instance-and-topic", f"second stream saw {[(g[0], type(g[1]).__name__, g[2]) for g in got]}", summary)
    return OK(summary, True)


RELAY = Harness(
    prop="C10",
    name="E-relay",
    fn=relay_fn,
    params=relay_params,
    cube=lambda tier: 0,
    title="an event object dispatched a second time on another signal; a bound signal used after its owner is gone",
    bound_text=lambda tier: "1-3 events; (0) each dispatched on sensor.a and then, the same object, on hub.b, with one subscriber each; (1) sensor deleted and collected while its bound "
    "signal and a subscriber of it live on, then dispatches through the kept bound signal; owner plain / falsy value object",
    oracle="(0) at the moment it is yielded, each event carries the instance and topic of the dispatch that delivered it; (1) the subscriber still gets every event, dispatch does not raise",
    outside="what `source` is once the owner is gone",
    stubs=STUBS_COMMON,
)
HARNESSES.append(RELAY)


# ------------------------------------------------------------------------------ E-reuse (scenario shared with C11)
from . import c11 as _c11  # noqa: E402


@guard
def reuse_fn(a, tier):
    res = _c11.reuse_fn(a, tier)
    if res.ok or not res.sig.endswith(":signal-object-shared"):
        return res
    return OK(res.summary, nontrivial=False)  # which signal OBJECT is handed out is C11's clause


REUSE = Harness(
    prop="C10",
    name="E-reuse",
    fn=reuse_fn,
    params=_c11.reuse_params,
    cube=lambda tier: 0,
    title="events of an instance that lives at the memory address of a dead one: source stamp and stream isolation",
    bound_text=_c11.REUSE.bound_text,
    oracle="the event is stamped with the dispatching (new) instance as source, reaches the stream opened on the new instance's signal and is not "
    "yielded by a stream that was opened on the dead instance's signal",
    outside=_c11.REUSE.outside,
    stubs=STUBS_COMMON,
)
HARNESSES.append(REUSE)
