"""C12 -- current_context() follows strict per-task stack discipline."""
from __future__ import annotations

import anyio

from .common import FAIL, OK, STUBS_COMMON, BodyErr, CbErr, DeviationTape, Harness, P, guard, pick, run

import symsched
from asphalt.core import (  # noqa: E402
    Component,
    Context,
    NoCurrentContext,
    current_context,
    start_background_task_factory,
    start_component,
    start_service_task,
)

STEPS = ["enter Context()", "enter Context() with a raising teardown callback", "enter Context(explicit parent = the shared root)",
         "leave cleanly", "leave with an exception", "checkpoint", "spawn a child task", "try to enter the innermost context again (must be refused)",
         "leave the SECOND-innermost context while the innermost, entered later, stays open (overlapping lifetimes, e.g. through an AsyncExitStack)"]


def cur():
    try:
        return current_context()
    except NoCurrentContext:
        return None


class Prog:
    """Interpreter of one task's program with a shadow stack."""

    def __init__(self, name, steps, shadow, shared, problems, tg):
        self.name, self.steps, self.shadow, self.shared = name, steps, list(shadow), shared
        self.problems, self.tg = problems, tg
        self.entered = []  # (ctx, shadow_before)

    def observe(self, where):
        exp = self.shadow[-1] if self.shadow else None
        got = cur()
        if got is not exp:
            self.problems.append((f"current-context-wrong:{where}", f"task {self.name}: got {got!r} expected {exp!r}"))
            return False
        return True

    async def leave(self, exc):
        ctx, before, how = self.entered.pop()
        try:
            await ctx.__aexit__(type(exc) if exc else None, exc, None)
        except BaseException:  # noqa: the outcome of the block is C01's business
            pass
        self.shadow = before
        if not ctx.closed:
            self.problems.append(("not-closed-after-leave", self.name))
        return self.observe(f"after-leave:{how}:{'exception' if exc is not None else 'clean'}")

    async def run(self):
        try:
            if not self.observe("task-start"):
                return
            for st in self.steps:
                if st in (0, 1, 2):
                    top = self.shadow[-1] if self.shadow else None
                    if st == 2:
                        ctx = Context(self.shared["root"])
                        exp_parent = self.shared["root"]
                    else:
                        ctx = Context()
                        exp_parent = top
                    if ctx.parent is not exp_parent:
                        self.problems.append((f"parent-wrong:{STEPS[st]}", f"task {self.name}: {ctx.parent!r} expected {exp_parent!r}"))
                        return
                    await ctx.__aenter__()
                    if st == 1:
                        def boom():
                            raise CbErr("teardown")
                        ctx.add_teardown_callback(boom)
                    self.entered.append((ctx, list(self.shadow), ["default-parent", "raising-teardown", "explicit-parent"][st]))
                    self.shadow.append(ctx)
                    if not self.observe(f"after-enter:{STEPS[st]}"):
                        return
                elif st in (3, 4):
                    if self.entered:
                        if not await self.leave(BodyErr("body") if st == 4 else None):
                            return
                elif st == 7:
                    if self.entered:
                        top = self.entered[-1][0]
                        try:
                            await top.__aenter__()
                            self.problems.append(("re-entry-of-an-entered-context-accepted", self.name))
                            return
                        except RuntimeError:
                            pass
                        if not self.observe("after-refused-re-entry"):
                            return
                elif st == 8:
                    if len(self.entered) >= 2:
                        ctx, before, how = self.entered.pop(-2)
                        try:
                            await ctx.__aexit__(None, None, None)
                        except BaseException:  # noqa: complaining about a still open CHILD is C13's business
                            pass
                        # "on leaving the block ... it is again whatever it was before entry": literally that, also when a later context is still open
                        self.shadow = before
                        if not ctx.closed:
                            self.problems.append(("not-closed-after-leave", self.name))
                        if not self.observe(f"after-leaving-an-outer-context-first:{how}"):
                            return
                elif st == 5:
                    await anyio.sleep(0)
                    if not self.observe("after-checkpoint"):
                        return
                else:
                    child = Prog(self.name + ".child", [0, 5, 3, 5], self.shadow, self.shared, self.problems, self.tg)
                    self.tg.start_soon(child.run)
        except symsched.Cancelled as e:
            with anyio.CancelScope(shield=True):
                while self.entered:
                    if not await self.leave(e):
                        return
            raise
        # leave whatever is still open (children of a task must leave first: LIFO)
        while self.entered:
            if not await self.leave(None):
                return


def cfg(tier):
    return (3, 1, 8) if tier == "quick" else (4, 1, 10)


def params(tier):
    K, D, L = cfg(tier)
    ps = [P(f"a{i}", 0, 8) for i in range(K)] + [P("cancel", 0, 4)]
    for j in range(D):
        ps += [P(f"gap{j}", 0, L), P(f"arm{j}", 0, 7)]
    return ps


@guard
def fn(a, tier):
    K, D, L = cfg(tier)
    steps = [pick(a[f"a{i}"], 9) for i in range(K)]
    cancel_at = pick(a["cancel"], 5)  # 0: never; n: the canceller cancels task A after n-1 checkpoints
    tape = DeviationTape([(a[f"gap{j}"], a[f"arm{j}"]) for j in range(D)], L)
    problems = []
    shared = {}

    async def main():
        async with Context() as root:
            shared["root"] = root
            async with anyio.create_task_group() as tg:
                pa = Prog("A", steps, [root], shared, problems, tg)
                pb = Prog("B", [0, 5, 2, 5, 3, 5, 4], [root], shared, problems, tg)
                scope = anyio.CancelScope()

                async def run_a():
                    with scope:
                        await pa.run()

                async def canceller():
                    for _ in range(cancel_at - 1):
                        await anyio.sleep(0)
                    scope.cancel()

                tg.start_soon(run_a)
                tg.start_soon(pb.run)
                if cancel_at:
                    tg.start_soon(canceller)
            if cur() is not root:
                problems.append(("current-context-wrong:after-task-group", ""))
        if cur() is not None:
            problems.append(("current-context-wrong:after-root-exit", repr(cur())))

    _, exc, k = run(main, chooser=tape)
    summary = {"task_A": [STEPS[s] for s in steps], "task_B": "enter, cp, enter(explicit parent), cp, leave, cp, leave-with-exception",
               "A_cancelled_after_checkpoints": None if not cancel_at else cancel_at - 1, "schedule": tape.taken}
    if problems:
        return FAIL(problems[0][0], problems[0][1], summary)
    if exc is not None:
        return FAIL(f"raised:{type(exc).__name__}", repr(exc), summary)
    return OK(summary, nontrivial=any(s in (0, 1, 2) for s in steps))


H = Harness(
    prop="C12",
    name="P-stack",
    fn=fn,
    params=params,
    cube=lambda tier: 2,
    title="symbolic per-task enter/leave programs with shadow stacks, a concurrent task, spawned children and a canceller",
    bound_text=lambda tier: f"task A: any program of {3 if tier == 'quick' else 4} steps over {{" + "; ".join(STEPS) + "}; task B: fixed program incl. an "
    "explicit-parent context and an exceptional exit; spawned children run enter/checkpoint/leave; optional cancellation of A after 0-3 "
    "checkpoints; FIFO schedule with " + ("one deviation within 8 decisions" if tier == "quick" else "one deviation within 10 decisions"),
    oracle="after every step every task's current_context() is the top of its own shadow stack (None -> NoCurrentContext); a new context's parent "
    "is the shadow top at creation (or the explicit one); a spawned task starts with its spawner's top; leaving by return / exception / raising "
    "teardown / cancellation restores exactly what was current before that context's entry - also when a context entered later is still open - and closes the context",
    outside="contexts entered and left in different tasks (unsupported); deeper programs",
    stubs=STUBS_COMMON,
)


# ------------------------------------------------------------------------------ inheritance
def inh_params(tier):
    return [P("variant", 0, 8), P("leave", 0, 1), P("falsy", 0, 1), P("under", 0, 1)]


@guard
def inh_fn(a, tier):
    variant, leave_exc, falsy = pick(a["variant"], 9), pick(a["leave"], 2), pick(a["falsy"], 2)
    under = pick(a["under"], 2)  # the whole scenario runs inside one more (root) context: `outer` is then a nested, non-root context
    problems = []
    names = ["service task", "task factory task (start_task)", "task factory task (start_task_soon from a nested context)", "component prepare()/start()",
             "task of a factory started through the owner's METHOD while a nested context was current, spawned after that context was left",
             "service task started through the owner's METHOD while a nested context was current",
             "two independent applications in sibling tasks that inherited no context, and an uninvolved observer task",
             "component prepare()/start() at nesting depth 2 (a component whose start() itself calls start_component)",
             "a fire-and-forget task spawned inside a block into an OUTER task group, looking at its current context after the block was left (and nobody else references that context)"]

    class Batch(Context):
        """A context that is also a (currently empty) container: falsy."""

        def __len__(self):
            return 0

    async def independent_apps():
        """No context is current where the tasks are spawned: whatever one application opens is invisible to the others."""
        opened, done = anyio.Event(), anyio.Event()
        seen = {}

        async def app_one():
            async with (Batch() if falsy else Context()) as root1:
                seen["root1"] = root1
                opened.set()
                await done.wait()
            seen["one_after"] = cur()

        async def observer():
            await opened.wait()
            seen["observer"] = cur()

        async def app_two():
            await opened.wait()
            seen["two_before"] = cur()
            ctx = Context()
            seen["two_parent"] = ctx.parent
            try:
                async with ctx:
                    seen["two_inside"] = cur() is ctx
                    if leave_exc:
                        raise BodyErr("x")
            except BodyErr:
                pass
            seen["two_after"] = cur()
            done.set()

        async with anyio.create_task_group() as tg:
            tg.start_soon(app_one)
            tg.start_soon(observer)
            tg.start_soon(app_two)
        for key in ("observer", "two_before", "two_parent", "two_after", "one_after"):
            if seen.get(key, "missing") is not None:
                problems.append((f"independent-task-sees-another-applications-context:{key}", repr(seen.get(key))))
        if not seen.get("two_inside"):
            problems.append(("independent-application-own-context", ""))

    async def straggler():
        import gc

        seen = {}
        gate = anyio.Event()

        async def job():
            seen["at_start"] = id(cur()) if cur() is not None else None
            await gate.wait()
            gc.collect()
            c = cur()
            seen["later"] = (id(c), c.closed) if c is not None else None
            inner = Context()
            seen["parent_id"] = id(inner.parent) if inner.parent is not None else None

        async with anyio.create_task_group() as tg:
            async with (Batch() if falsy else Context()) as request:
                seen["request_id"] = id(request)
                tg.start_soon(job)
                await anyio.sleep(0)
            del request
            gc.collect()
            gate.set()
        if seen.get("at_start") != seen["request_id"]:
            problems.append(("spawned-task-did-not-inherit-the-context-current-where-it-was-spawned", repr(seen)))
        elif seen.get("later") != (seen["request_id"], True) or seen.get("parent_id") != seen["request_id"]:
            problems.append(("task-lost-its-inherited-context-after-the-spawning-block-was-left", repr(seen)))

    async def main():
        if under:
            async with Context():
                await main_()
        else:
            await main_()

    async def main_():
        if variant == 6:
            if not under:
                await independent_apps()
            return
        if variant == 8:
            await straggler()
            return
        async with (Batch() if falsy else Context()) as outer:
            if cur() is not outer:
                problems.append(("current-context-inside-the-block-is-not-that-context", repr(cur())))
            outer.add_resource(object(), "marker", [Marker])
            if variant == 0:
                async def svc():
                    c = cur()
                    if c is None or c.parent is not outer:
                        problems.append(("service-task-context", repr(c)))
                    async with Context() as inner:
                        if inner.parent is not c or cur() is not inner:
                            problems.append(("service-task-nested", ""))
                    if cur() is not c:
                        problems.append(("service-task-restore", ""))
                await start_service_task(svc, "svc")
                await anyio.sleep(0)
            elif variant == 5:
                seen = {}

                async def svc5():
                    seen["c"] = cur()

                async with Context() as request:
                    await outer.start_service_task(svc5, "svc5")
                    if cur() is not request:
                        problems.append(("current-context-changed-by-starting-a-service-task", ""))
                await anyio.sleep(0)
                if seen.get("c") is None or seen["c"].parent is not outer:
                    problems.append(("service-task-context-not-under-the-context-it-was-started-on", repr(seen.get("c"))))
            elif variant in (1, 2, 4):
                if variant == 4:
                    async with Context():
                        tf = await outer.start_background_task_factory()
                else:
                    tf = await start_background_task_factory()
                seen = {}

                async def job():
                    c = cur()
                    seen["c"] = c
                    try:
                        async with Context() as inner:
                            seen["inner_parent"] = inner.parent
                            if leave_exc:
                                raise BodyErr("x")
                    except BodyErr:
                        pass
                    seen["after"] = cur()

                if variant in (1, 4):
                    h = await tf.start_task(job)
                else:
                    async with Context():
                        h = tf.start_task_soon(job)
                await h.wait_finished()
                c = seen.get("c")
                if c is None or c.parent is None or c.parent.parent is not outer:
                    problems.append(("factory-task-context-not-under-factory-owner", repr(c)))
                elif seen["inner_parent"] is not c or seen["after"] is not c:
                    problems.append(("factory-task-nested-or-restore", ""))
            else:
                seen = {}

                class Comp(Component):
                    async def prepare(self):
                        ctx = Context()
                        seen["prepare_parent"] = ctx.parent
                        async with ctx:
                            seen["prepare_inner"] = cur() is ctx
                        seen["prepare_after"] = cur()

                    async def start(self):
                        before = cur()
                        try:
                            async with Context() as ctx:
                                seen["start_parent"] = ctx.parent
                                if leave_exc:
                                    raise BodyErr("x")
                        except BodyErr:
                            pass
                        seen["start_restored"] = cur() is before

                if variant == 7:

                    class Outer(Component):
                        async def start(self):
                            await start_component(Comp, {})
                            seen["outer_after"] = cur()

                    await start_component(Outer, {})
                else:
                    await start_component(Comp, {})
                if seen["prepare_parent"] is not outer or seen["start_parent"] is not outer:
                    problems.append(("component-context-parent-not-callers-context", f"{seen}"))
                if not seen["prepare_inner"] or not seen["start_restored"]:
                    problems.append(("component-context-restore", f"{seen}"))
                if cur() is not outer:
                    problems.append(("after-start_component", ""))
        if cur() is not None and not under:
            problems.append(("after-root-exit", ""))

    class Marker:
        pass

    _, exc, _k = run(main)
    summary = {"site": names[variant], "inner_block_left_by": "exception" if leave_exc else "return",
               "outer_context": "a falsy Context subclass (an empty container)" if falsy else "Context",
               "everything_inside_one_more_root_context": bool(under)}
    if exc is not None:
        return FAIL(f"raised:{type(exc).__name__}", repr(exc), summary)
    if problems:
        return FAIL(problems[0][0] + f":leave_exc={leave_exc}", problems[0][1], summary)
    return OK(summary, True)


INH = Harness(
    prop="C12",
    name="P-inherit",
    fn=inh_fn,
    params=inh_params,
    cube=lambda tier: 0,
    title="parents of contexts created in service tasks, task-factory tasks and component prepare()/start()",
    bound_text=lambda tier: "6 sites (incl. a task factory / service task started through the owner's method while a nested context is current) x inner block left by "
    "return / exception x outer context a plain Context / a falsy Context subclass",
    oracle="service task: own context whose parent is the owner; factory task: context under the factory's context under the owner, whoever spawned "
    "it; inside prepare()/start(): a new Context()'s parent is the context start_component was called in; restoration after inner blocks",
    outside="-",
    stubs=STUBS_COMMON,
)

HARNESSES = [H, INH]
