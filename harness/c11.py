"""C11 -- Every (instance, signal attribute) pair is an independent channel."""
from __future__ import annotations

import copy
import gc
import weakref
from dataclasses import dataclass

import anyio

from .common import FAIL, OK, STUBS_COMMON, Harness, P, guard, pick, run

from asphalt.core import Event, Signal, UnboundSignal, stream_events, wait_event  # noqa: E402


class EA(Event):
    pass


class EB(Event):
    pass


class EC(Event):
    pass


class EA2(EA):  # a proper subclass event is acceptable on a channel declared for EA
    pass


class Base:
    a = Signal(EA)
    b = Signal(EB)


class Sub(Base):
    c = Signal(EC)


@dataclass(frozen=True)
class Value:  # instances compare (and hash) equal
    x: int
    a = Signal(EA)
    b = Signal(EB)


class Sized:  # instances are falsy
    a = Signal(EA)
    b = Signal(EB)

    def __len__(self):
        return 0


class Slotted:
    __slots__ = ("__weakref__",)
    a = Signal(EA)
    b = Signal(EB)


class PrivBase:
    __changed = Signal(EA)  # name-mangled: the attribute is `_PrivBase__changed`


class PrivSub(PrivBase):
    __changed = Signal(EB)  # another attribute (`_PrivSub__changed`) with the same source-level name


KINDS = [("plain class", Base, ("a", "b")), ("subclass inheriting two signals and adding one", Sub, ("a", "b", "c")),
         ("frozen dataclass, the two instances compare equal", Value, ("a", "b")), ("class whose instances are falsy (__len__ == 0)", Sized, ("a", "b")),
         ("__slots__ class", Slotted, ("a", "b")),
         ("class and subclass each declaring a private (name-mangled) signal `__changed`", PrivSub, ("_PrivBase__changed", "_PrivSub__changed"))]
EVCLS = {"a": EA, "b": EB, "c": EC, "_PrivBase__changed": EA, "_PrivSub__changed": EB}


def params(tier):
    return [P("kind", 0, len(KINDS) - 1), P("clone", 0, 1)] + [P(f"p{i}", 0, 5 - i) for i in range(6)]


@guard
def fn(a, tier):
    kind = pick(a["kind"], len(KINDS))
    name, cls, attrs = KINDS[kind]
    clone = pick(a["clone"], 2) if cls is not Slotted else 0
    insts = [cls(1), cls(1)] if cls is Value else [cls(), cls()]
    pairs = [(i, at) for i in range(2) for at in attrs]
    # symbolic permutation of the first accesses (Lehmer code)
    order = []
    rest = list(pairs)
    for i in range(len(pairs)):
        j = pick(a[f"p{i}"] if i < 6 else 0, len(rest))
        order.append(rest.pop(j))
    bound = {}
    for i, at in order:
        bound[(i, at)] = getattr(insts[i], at)
        if clone and (i, at) == order[0]:
            insts.append(copy.copy(insts[0]))  # shallow copy taken after the first access
    if clone:
        for at in attrs:
            bound[(2, at)] = getattr(insts[2], at)
    summary = {"owner": name, "first_access_order": [f"obj{i}.{at}" for i, at in order], "shallow_copy_after_first_access": bool(clone)}
    keys = list(bound)
    for k in keys:
        if getattr(insts[k[0]], k[1]) is not bound[k]:
            return FAIL(f"identity:not-stable:{name}", k, summary)
        if bound[k].event_class is not EVCLS[k[1]]:
            return FAIL(f"wrong-event-class:{name}", f"{k}: {bound[k].event_class}", summary)
    for x in range(len(keys)):
        for y in range(x + 1, len(keys)):
            if bound[keys[x]] is bound[keys[y]]:
                same_inst = keys[x][0] == keys[y][0]
                return FAIL(f"shared-channel:{'two-attributes-of-one-instance' if same_inst else 'two-instances'}:{name}:clone={clone}",
                            f"{keys[x]} and {keys[y]}", summary)
    got = {k: [] for k in keys}
    errors = []

    async def main():
        async with anyio.create_task_group() as tg:
            async def listen(k, *, task_status):
                async with bound[k].stream_events() as stream:
                    task_status.started()
                    async for ev in stream:
                        got[k].append(ev)

            # one stream over the SAME attribute of both instances (multi-signal API), opened first,
            # while neither channel has any other subscriber
            both = []

            async def listen_both(*, task_status):
                async with stream_events([bound[(0, attrs[0])], bound[(1, attrs[0])]]) as stream:
                    task_status.started()
                    async for ev in stream:
                        both.append(ev)

            await tg.start(listen_both)
            # a subscriber of the first channel that is cancelled in the middle of its stream, BEFORE the
            # regular listeners subscribe: nothing of it may stay behind
            doomed = anyio.CancelScope()

            async def listen_doomed(*, task_status):
                with doomed:
                    async with bound[keys[0]].stream_events() as stream:
                        task_status.started()
                        async for _ in stream:
                            pass

            await tg.start(listen_doomed)
            doomed.cancel()
            await anyio.wait_all_tasks_blocked()
            for k in keys:
                await tg.start(listen, k)
            sent = {}
            for k in keys:
                ev = EVCLS[k[1]]()
                sent[k] = ev
                bound[k].dispatch(ev)
                for wrong in (EB() if EVCLS[k[1]] is not EB else EA(), Event()):  # a sibling class, and the BASE class of all events
                    try:
                        bound[k].dispatch(wrong)
                        errors.append((f"wrong-class-accepted:{type(wrong).__name__}", k))
                    except TypeError:
                        pass
                if EVCLS[k[1]] is EA:
                    sub = EA2()
                    try:
                        bound[k].dispatch(sub)
                        sent[(k, "sub")] = sub
                    except TypeError:
                        errors.append(("subclass-event-rejected", k))
            await anyio.wait_all_tasks_blocked()
            for k in keys:
                exp_k = [sent[k]] + ([sent[(k, "sub")]] if (k, "sub") in sent else [])
                if len(got[k]) != len(exp_k) or any(x is not y for x, y in zip(got[k], exp_k)):
                    errors.append(("delivery-matrix", f"{k} received {len(got[k])} events, expected {len(exp_k)}"))
                elif sent[k].source is not insts[k[0]] or sent[k].topic != k[1]:  # noqa
                    errors.append(("stamp", f"{k}: source={sent[k].source!r} topic={sent[k].topic!r}"))
            exp_both = [sent[(0, attrs[0])], sent[(1, attrs[0])]] + [sent[(kk, "sub")] for kk in ((0, attrs[0]), (1, attrs[0])) if (kk, "sub") in sent]
            if len(both) != len(exp_both) or any(x is not y for x, y in zip(sorted(both, key=id), sorted(exp_both, key=id))):
                errors.append(("multi-signal-stream-over-two-instances", f"received {len(both)} of 2 events"))
            # class-level use
            decl = getattr(cls, attrs[0])
            for what in ("dispatch", "stream", "wait"):
                try:
                    if what == "dispatch":
                        decl.dispatch(EA())
                    elif what == "stream":
                        async with stream_events([decl]):
                            pass
                    else:
                        with anyio.move_on_after(1):
                            await wait_event([decl])
                    errors.append((f"class-level-{what}-accepted", ""))
                except UnboundSignal:
                    pass
            tg.cancel_scope.cancel()

    _, exc, _k = run(main)
    if exc is not None:
        return FAIL(f"raised:{type(exc).__name__}:{name}", repr(exc), summary)
    if errors:
        return FAIL(f"{errors[0][0]}:{name}:clone={clone}", errors[:3], summary)
    # "always yields the same bound signal": also after every listener of the channel has come and gone
    for k in keys:
        if getattr(insts[k[0]], k[1]) is not bound[k]:
            return FAIL(f"identity:not-stable-after-the-listeners-left:{name}", k, summary)
    # binding never keeps the owner alive
    import symsched

    refs = [weakref.ref(o) for o in insts]
    # drop the harness's own references (the finished kernel keeps task tracebacks alive)
    symsched.Backend.last_kernel = None
    del insts, bound, got, _k, exc
    gc.collect()
    if any(r() is not None for r in refs):
        return FAIL(f"owner-kept-alive:{name}", "", summary)
    return OK(summary, True)


H = Harness(
    prop="C11",
    name="K-channels",
    fn=fn,
    params=params,
    cube=lambda tier: 3,
    title="identity, independence and delivery matrix of all (instance, attribute) channels under every order of first access",
    bound_text=lambda tier: "owner class in {" + "; ".join(k[0] for k in KINDS) + "}; two instances (+ a shallow copy of the first, taken after its first "
    "signal access); every permutation of the first accesses of all (instance, attribute) pairs",
    oracle="obj.x is obj.x; no two pairs share a bound signal; event class and topic per attribute; one event dispatched per channel reaches exactly "
    "that channel's listener, stamped with its own instance; wrong event class -> TypeError; class-level dispatch/stream/wait -> UnboundSignal; "
    "owners are garbage-collectable afterwards",
    outside="more than 3 signals / 3 instances; concurrent first accesses (Signal.__get__ has no await points)",
    stubs=STUBS_COMMON,
)

HARNESSES = [H]


# ------------------------------------------------------------------------------ K-subscribers
from itertools import permutations as _perms  # noqa: E402

LEAVE_ORDERS = list(_perms(range(3)))


def subs_params(tier):
    return [P("order", 0, 5), P("slowpos", 0, 3), P("kind", 0, 1), P("zeroq", 0, 1)]


@guard
def subs_fn(a, tier):
    """Several subscribers of ONE channel coming and going in any order, next to a subscriber of the channel AND a neighbour
    channel whose 1-slot queue is full: the channel's remaining subscribers keep getting the channel's events."""
    import warnings

    order = LEAVE_ORDERS[pick(a["order"], 6)]
    slowpos = pick(a["slowpos"], 4)
    cls = [Base, Sized][pick(a["kind"], 2)]
    zeroq = pick(a["zeroq"], 2)  # one more subscriber of obj.a with max_queue_size=0 (hand-off only) that is always waiting when an event is dispatched
    obj = cls()
    got_z, all_a = [], []
    got = {i: [] for i in range(3)}
    got_b, errors, expected = [], [], {i: [] for i in range(3)}

    async def main():
        async with anyio.create_task_group() as tg:
            scopes = {}

            async def listen(i, *, task_status):
                with anyio.CancelScope() as sc:
                    scopes[i] = sc
                    async with obj.a.stream_events() as stream:
                        task_status.started()
                        async for ev in stream:
                            got[i].append(ev)

            async def listen_b(*, task_status):
                async with obj.b.stream_events() as stream:
                    task_status.started()
                    async for ev in stream:
                        got_b.append(ev)

            async def slow(*, task_status):
                async with stream_events([obj.a, obj.b], max_queue_size=1):
                    task_status.started()
                    await anyio.sleep_forever()  # never reads

            async def listen_zero(*, task_status):
                async with obj.a.stream_events(max_queue_size=0) as stream:
                    task_status.started()
                    async for ev in stream:
                        got_z.append(ev)

            await tg.start(listen_b)
            if zeroq:
                await tg.start(listen_zero)
                await anyio.wait_all_tasks_blocked()
            for i in range(3):
                if slowpos == i + 1:
                    await tg.start(slow)
                await tg.start(listen, i)
            active = [0, 1, 2]
            filler = EB()
            with warnings.catch_warnings():
                warnings.simplefilter("ignore")
                obj.b.dispatch(filler)  # fills the slow subscriber's only slot with an event of the NEIGHBOUR channel

                def send():
                    ev = EA()
                    try:
                        obj.a.dispatch(ev)
                    except Exception as e:  # noqa
                        errors.append(("dispatch-raised", type(e).__name__))
                    for i in active:
                        expected[i].append(ev)
                    all_a.append(ev)

                send()
                for leaver in order:
                    await anyio.wait_all_tasks_blocked()
                    scopes[leaver].cancel()
                    await anyio.wait_all_tasks_blocked()
                    active.remove(leaver)
                    send()
            await anyio.wait_all_tasks_blocked()
            tg.cancel_scope.cancel()
        for i in range(3):
            if len(got[i]) != len(expected[i]) or any(x is not y for x, y in zip(got[i], expected[i])):
                errors.append(("subscriber-of-the-channel-missed-or-got-extra-events", f"subscriber {i}: got {len(got[i])}, expected {len(expected[i])}"))
        if zeroq and (len(got_z) != len(all_a) or any(x is not y for x, y in zip(got_z, all_a))):
            errors.append(("waiting-subscriber-with-max_queue_size-0-missed-events-of-its-channel", f"got {len(got_z)} of {len(all_a)}"))
        if len(got_b) != 1 or got_b[0] is not filler:
            errors.append(("neighbour-channel-subscriber", f"got {len(got_b)} events"))

    _, exc, _k = run(main)
    summary = {"leave_order_of_the_three_subscribers": list(order), "owner": ["plain class", "falsy instances"][cls is Sized],
               "subscriber_with_a_full_1_slot_queue_over_both_channels": ["none", "subscribed first", "subscribed second", "subscribed third"][slowpos],
               "waiting_subscriber_with_max_queue_size_0": bool(zeroq)}
    if exc is not None:
        return FAIL(f"subscribers:raised:{type(exc).__name__}", repr(exc), summary)
    if errors:
        return FAIL(f"subscribers:{errors[0][0]}:slow={slowpos}", errors[:3], summary)
    return OK(summary, True)


SUBS = Harness(
    prop="C11",
    name="K-subscribers",
    fn=subs_fn,
    params=subs_params,
    cube=lambda tier: 0,
    title="several subscribers of one channel leaving in any order, beside a full-queue subscriber that also listens to the neighbour channel",
    bound_text=lambda tier: "three subscribers of obj.a (tasks, entered in order, leaving by cancellation in any of the 6 orders), one subscriber of obj.b, optionally a "
    "never-reading subscriber of [obj.a, obj.b] with max_queue_size=1 entered first/second/third whose slot is filled by an obj.b event; one obj.a event after every change",
    oracle="every obj.a event is delivered to exactly the obj.a subscribers subscribed at that moment (identity, order), dispatch never raises, the obj.b subscriber "
    "gets only the obj.b event",
    outside="leaving by other routes and queue overflow details (C10 E-history / E-queue)",
    stubs=STUBS_COMMON,
)
HARNESSES.append(SUBS)


# ------------------------------------------------------------------------------ K-merged
def merged_params(tier):
    return [P("how", 0, 2), P("kind", 0, 1), P("later", 0, 1)]


@guard
def merged_fn(a, tier):
    """One listener over TWO channels (a context's resource_added and an ordinary signal); the context goes away while the listener stays."""
    from asphalt.core import Context

    how, kind, later = pick(a["how"], 3), pick(a["kind"], 2), pick(a["later"], 2)
    obj = [Base, Sized][kind]()
    got, got_other, problems = [], [], []

    async def main():
        async with Context() as root, anyio.create_task_group() as tg:
            child = Context()
            await child.__aenter__()

            async def merged(*, task_status):
                async with stream_events([child.resource_added, obj.a]) as stream:
                    task_status.started()
                    async for ev in stream:
                        got.append(ev)

            async def other(*, task_status):
                async with obj.a.stream_events() as stream:
                    task_status.started()
                    async for ev in stream:
                        got_other.append(ev)

            await tg.start(merged)
            if not later:
                await tg.start(other)
            child.add_resource(object(), "x", [EA])
            await anyio.wait_all_tasks_blocked()
            try:
                if how == 0:
                    await child.__aexit__(None, None, None)
                elif how == 1:
                    await child.__aexit__(ValueError, ValueError("block failed"), None)
                else:
                    child.add_teardown_callback(lambda: (_ for _ in ()).throw(RuntimeError("teardown failed")))
                    try:
                        await child.__aexit__(None, None, None)
                    except BaseException:  # noqa
                        pass
            except BaseException as e:  # noqa
                problems.append(("context-exit-raised", repr(e)))
            if later:
                await tg.start(other)
            sent = []
            for _ in range(2):
                ev = EA()
                try:
                    obj.a.dispatch(ev)
                    sent.append(ev)
                except Exception as e:  # noqa
                    problems.append((f"dispatch-on-the-other-channel-raised:{type(e).__name__}", repr(e)))
                await anyio.wait_all_tasks_blocked()
            if [e for e in got if isinstance(e, EA)] != sent or got_other != sent:
                problems.append(("event-of-the-other-channel-not-delivered", f"merged listener got {len(got)} events, plain listener {len(got_other)}, dispatched {len(sent)}"))
            tg.cancel_scope.cancel()

    _, exc, _k = run(main)
    summary = {"context_left_by": ["clean exit", "exception", "failing teardown callback"][how], "owner": ["plain class", "falsy instances"][kind],
               "plain_listener_subscribed": "after the context was closed" if later else "before"}
    if exc is not None:
        return FAIL(f"merged:raised:{type(exc).__name__}", repr(exc), summary)
    if problems:
        return FAIL(f"merged:{problems[0][0]}", problems[0][1], summary)
    return OK(summary, True)


MERGED = Harness(
    prop="C11",
    name="K-merged",
    fn=merged_fn,
    params=merged_params,
    cube=lambda tier: 0,
    title="a listener merged over a context's resource_added signal and another signal, while that context is closed",
    bound_text=lambda tier: "stream_events([child.resource_added, obj.a]); the child context is left cleanly / with an exception / with a failing teardown callback while the listener stays "
    "subscribed; a plain listener of obj.a subscribed before / after; then two obj.a events",
    oracle="dispatching on obj.a does not raise and both listeners get both events: what happens to one channel leaves the other untouched",
    outside="-",
    stubs=STUBS_COMMON,
)
HARNESSES.append(MERGED)


# ------------------------------------------------------------------------------ G-reuse
def reuse_params(tier):
    return [P("kind", 0, 1), P("touch1", 0, 1)]


@guard
def reuse_fn(a, tier):
    """Three generations of owners at one memory address: bound signals of a dead owner must
    never be inherited by a later object that happens to get the same id()."""
    kind, touch1 = pick(a["kind"], 2), pick(a["touch1"], 2)
    cls = [Base, Sized][kind]
    out = {}

    def new_at(addr, keep):
        for _ in range(300):
            o = cls()
            if addr is None or id(o) == addr:
                return o
            keep.append(o)
        return None

    async def main():
        keep = []
        o1 = cls()
        addr = id(o1)
        if touch1:
            o1.a
        del o1
        gc.collect()
        o2 = new_at(addr, keep)
        if o2 is None:
            out["skipped"] = True
            return
        sig2 = o2.a
        got2 = []
        async with anyio.create_task_group() as tg:
            async def listen2(*, task_status):
                async with sig2.stream_events() as stream:
                    task_status.started()
                    async for ev in stream:
                        got2.append(ev)

            await tg.start(listen2)
            del o2
            keep.clear()
            gc.collect()
            o3 = new_at(addr, keep)
            if o3 is None:
                out["skipped"] = True
                tg.cancel_scope.cancel()
                return
            sig3 = o3.a
            out["fresh"] = sig3 is not sig2
            ev = EA()
            got3 = []

            async def listen3(*, task_status):
                async with sig3.stream_events() as stream:
                    task_status.started()
                    async for e in stream:
                        got3.append(e)

            await tg.start(listen3)
            sig3.dispatch(ev)
            await anyio.wait_all_tasks_blocked()
            out["leak"] = len(got2)
            out["own"] = len(got3) == 1 and got3[0] is ev
            out["source"] = ev.source is o3
            tg.cancel_scope.cancel()

    _, exc, _k = run(main)
    summary = {"owner": ["plain class", "falsy instances"][kind], "first_generation_touched_its_signal": bool(touch1)}
    if exc is not None:
        return FAIL(f"reuse:raised:{type(exc).__name__}", repr(exc), summary)
    if out.get("skipped"):
        return OK(summary, nontrivial=False)  # the allocator did not hand the address out again
    if not out["fresh"] or out["leak"] or not out["own"] or not out["source"]:
        what = "stream-of-a-dead-owner-got-the-event" if out["leak"] else "event-not-stamped-with-the-dispatching-instance" if not out["source"] else "own-listener-missed-it" if not out["own"] else "signal-object-shared"
        return FAIL(f"reuse:bound-signal-of-a-dead-owner-inherited-by-a-new-object-at-the-same-address:{what}", f"{out}", summary)
    return OK(summary, True)


REUSE = Harness(
    prop="C11",
    name="G-reuse",
    fn=reuse_fn,
    params=reuse_params,
    cube=lambda tier: 0,
    title="three generations of owner objects recycled at one memory address",
    bound_text=lambda tier: "owner kind x first generation touched its signal or not; gen 2 binds and is listened to, then dies; gen 3 at the same id() binds and dispatches",
    oracle="generation 3 gets a fresh bound signal, its event reaches only its own listener and is stamped with generation 3 as source",
    outside="relies on CPython handing the freed address out again (paths where it does not are counted as trivial)",
    stubs=STUBS_COMMON,
)
HARNESSES.append(REUSE)
