"""Shared scaffolding for the property harnesses."""
from __future__ import annotations

import logging
import sys

from symkit import api

api.use_repo_source()

import symsched  # noqa: E402  (registers the backend)
from symkit.api import FAIL, OK, Harness, P, Result  # noqa: E402,F401
from symkit.choose import STATE, DeviationTape, Tape, flag, pick, sym_eq, sym_lt  # noqa: E402,F401

try:
    from crosshair.util import ControlFlowException
except ImportError:  # pragma: no cover

    class ControlFlowException(BaseException):  # type: ignore[no-redef]
        pass


import asphalt.core._event as _ev  # noqa: E402

logging.disable(logging.CRITICAL)


def _virtual_time():
    k = symsched._kernel
    return k.clock if k is not None else 0


# stub: Signal.dispatch stamps events with time.time(); CrossHair replaces the real
# clock by a symbolic one, so events are stamped with the model's virtual clock instead.
_ev.stdlib_time = _virtual_time

STUBS_COMMON = (
    "anyio backend replaced by the symsched model (clock, scheduler, signals)",
    "asphalt.core._event.stdlib_time -> virtual clock",
    "logging disabled",
)


class CbErr(Exception):
    pass


class CbBase(BaseException):
    pass


class BodyErr(Exception):
    pass


class BodyBase(BaseException):
    pass


def flatten(e):
    if isinstance(e, BaseExceptionGroup):
        out = []
        for x in e.exceptions:
            out += flatten(x)
        return out
    return [e]


def find_group(e, expected):
    """Is there a (nested) exception group whose members are exactly `expected`
    (identity, in order)?"""
    if isinstance(e, BaseExceptionGroup):
        if len(e.exceptions) == len(expected) and all(
            a is b for a, b in zip(e.exceptions, expected)
        ):
            return True
        return any(find_group(x, expected) for x in e.exceptions)
    return False


def contains_control_flow(e) -> bool:
    return any(isinstance(x, ControlFlowException) for x in flatten(e)) if e is not None else False


def run(main, chooser=None, max_steps=20000, observers=(), on_start=None):
    """Run `main` on symsched; returns (value, exception, kernel)."""
    try:
        val = symsched.run(
            main, chooser=chooser, max_steps=max_steps, observers=observers, on_start=on_start
        )
        return val, None, symsched.Backend.last_kernel
    except ControlFlowException:
        raise
    except BaseException as e:
        if contains_control_flow(e):
            # a CrossHair steering exception was swallowed into a group by asphalt: the
            # harness broke the rule "symbolic operations only in kernel/harness frames"
            raise RuntimeError("harness error: control-flow exception inside a group") from e
        return None, e, symsched.Backend.last_kernel


def guard(fn):
    """Wrap a harness body: any unexpected exception is an oracle failure with its own
    signature (a mutant may make asphalt raise where the harness did not expect it)."""

    def wrapped(args, tier):
        try:
            return fn(args, tier)
        except ControlFlowException:
            raise
        except (symsched.Deadlock, symsched.StepBudgetExceeded) as e:
            return FAIL(f"did-not-finish:{type(e).__name__}", e)
        except Exception as e:
            import traceback

            tb = traceback.extract_tb(e.__traceback__)
            where = ""
            for fr in reversed(tb):
                if "/asphalt/" in fr.filename or "/harness/" in fr.filename:
                    where = f"{fr.filename.rsplit('/', 1)[-1]}:{fr.name}"
                    break
            return FAIL(f"unexpected-exception:{type(e).__name__}:{where}", traceback.format_exc()[-1500:])

    wrapped.__name__ = fn.__name__
    return wrapped


def exc_name(e):
    return None if e is None else type(e).__name__
