"""
symsched -- a deterministic, choice-driven anyio backend (the environment model).

Pure Python, single threaded, no OS calls.  Every scheduling decision is taken by a
``chooser(n) -> int`` callback, so that a symbolic executor can make it a solver
variable; time is a virtual integer clock that advances only when nothing is runnable
(durations may be symbolic integers: the three arithmetic sites run with CrossHair's
tracing resumed).  Semantics follow trio / anyio's documented model: level-triggered
cancellation, task groups that wait for their children, `start()` with task status.

Everything above `anyio.abc.AsyncBackend` is the real code (asphalt, memory object
streams, AsyncExitStack, contextvars).

Registered as ``anyio._core._eventloop.loaded_backends["symsched"]`` on import; use
``symsched.run(func, chooser=...)`` or ``anyio.run(..., backend="symsched")``.
"""
from __future__ import annotations

import contextlib
import contextvars
import math
from typing import Any, Callable

import anyio
from anyio import abc
from anyio._core import _eventloop
from anyio._core._synchronization import Event as BaseEvent
from anyio._core._tasks import CancelScope as BaseCancelScope
from anyio.abc import TaskStatus

try:  # CrossHair is optional: native replay runs without it
    from crosshair.statespace import optional_context_statespace as _cs_space
    from crosshair.tracers import NoTracing as _NoTracing
    from crosshair.tracers import ResumedTracing as _ResumedTracing
    from crosshair.tracers import is_tracing as _is_tracing
    from crosshair.util import ControlFlowException as _ControlFlow
except ImportError:  # pragma: no cover
    _cs_space = None

    class _ControlFlow(BaseException):  # type: ignore[no-redef]
        pass


def _tr():
    """Resume CrossHair tracing (if suspended) around arithmetic on symbolic times."""
    if _cs_space is None or _cs_space() is None or _is_tracing():
        return contextlib.nullcontext()
    return _ResumedTracing()


def _untraced():
    if _cs_space is None or _cs_space() is None or not _is_tracing():
        return contextlib.nullcontext()
    return _NoTracing()


class Cancelled(BaseException):
    """The backend's cancellation exception (BaseException, as on asyncio and trio)."""


class Deadlock(RuntimeError):
    """Nothing runnable, no timer pending, main task unfinished."""


class StepBudgetExceeded(RuntimeError):
    """The scenario ran more scheduler steps than its budget (non-termination)."""


class _Trap:
    __slots__ = ("kind", "payload")

    def __init__(self, kind: str, payload: Any = None):
        self.kind = kind
        self.payload = payload

    def __await__(self):
        return (yield self)


class Task:
    def __init__(self, seq, coro, name, scopes, ctx, parent_tg):
        self.seq = seq
        self.coro = coro
        self.name = name
        self.scopes: list[CancelScope] = scopes  # outermost first
        self.ctx = ctx
        self.parent_tg = parent_tg
        self.next_value: Any = None
        self.next_exc: BaseException | None = None
        self.abort: Callable[[], None] | None = None  # set while blocked
        self.started = False
        self.yielded = False  # parked at a plain checkpoint (not blocked on anything)
        self.done = False
        self.result: Any = None
        self.exc: BaseException | None = None

    def effectively_cancelled(self) -> bool:
        for scope in reversed(self.scopes):
            if scope._cancel_called:
                return True
            if scope._shield:
                return False
        return False

    def __repr__(self):
        return f"<Task #{self.seq} {self.name}>"


class Timer:
    __slots__ = ("when", "seq", "fn")

    def __init__(self, when, seq, fn):
        self.when = when
        self.seq = seq
        self.fn = fn


class Kernel:
    def __init__(self, chooser: Callable[[int], int] | None = None, max_steps: int = 100000):
        self.chooser = chooser or (lambda n: 0)
        self.runnable: list[Task] = []
        self.tasks: list[Task] = []
        self.current: Task | None = None
        self.clock: Any = 0
        self.timers: list[Timer] = []
        self._timer_seq = 0
        self._task_seq = 0
        self.steps = 0
        self.decisions = 0
        self.max_steps = max_steps
        self.signal_receivers: list[_SignalReceiver] = []
        self.idle_waiters: list[Task] = []
        self.observers: list[Callable[["Kernel"], None]] = []
        self.limiter = None

    # -- scheduling ---------------------------------------------------------------
    def spawn(self, coro, name, scopes, ctx, parent_tg) -> Task:
        self._task_seq += 1
        task = Task(self._task_seq, coro, name, list(scopes), ctx, parent_tg)
        self.tasks.append(task)
        self.runnable.append(task)
        return task

    def reschedule(self, task: Task, value: Any = None, exc: BaseException | None = None):
        assert not task.done
        task.abort = None
        task.next_value = value
        task.next_exc = exc
        self.runnable.append(task)

    def add_timer(self, when, fn: Callable[[], None]) -> Timer:
        self._timer_seq += 1
        entry = Timer(when, self._timer_seq, fn)
        self.timers.append(entry)
        return entry

    def cancel_timer(self, entry: Timer) -> None:
        for i, e in enumerate(self.timers):
            if e is entry:
                del self.timers[i]
                break

    def deliver_cancellation(self, scope: "CancelScope") -> None:
        # wake up blocked tasks affected by this scope (in spawn order: deterministic)
        for task in scope._tasks_all():
            if task.abort is not None and task.effectively_cancelled():
                abort = task.abort
                task.abort = None
                abort()
                self.reschedule(task, exc=Cancelled())

    def live_tasks(self) -> list[Task]:
        return [t for t in self.tasks if not t.done]

    def run(self, coro) -> Any:
        main = self.spawn(coro, "main", [], contextvars.copy_context(), None)
        try:
            self.run_until(lambda: main.done)
        finally:
            self.close_all()
        if main.exc is not None:
            raise main.exc
        return main.result

    def close_all(self) -> None:
        """Close every unfinished coroutine, newest first, so that nothing is left to
        the garbage collector (which would finalise it in the middle of a later path)."""
        global _kernel
        with _untraced():
            prev = _kernel
            _kernel = None  # closing code must not reschedule anything
            try:
                for task in reversed(self.tasks):
                    if not task.done:
                        task.done = True
                        try:
                            if task.coro is not None:
                                task.coro.close()
                        except _ControlFlow:
                            raise
                        except BaseException:
                            pass
            finally:
                _kernel = prev

    def run_until(self, done) -> None:
        while True:
            if done():
                break
            if not self.runnable:
                if self.idle_waiters:
                    ws, self.idle_waiters = self.idle_waiters, []
                    for w in ws:
                        self.reschedule(w)
                    continue
                if not self.timers:
                    raise Deadlock(
                        "no runnable tasks and no timers; blocked: "
                        + ", ".join(t.name for t in self.live_tasks())
                    )
                with _tr():
                    best = 0
                    for i in range(1, len(self.timers)):
                        a, b = self.timers[i], self.timers[best]
                        if a.when < b.when or (a.when == b.when and a.seq < b.seq):
                            best = i
                    timer = self.timers.pop(best)
                    if timer.when > self.clock:
                        self.clock = timer.when
                timer.fn()
                continue
            n = len(self.runnable)
            if n > 1:
                self.decisions += 1
                idx = self.chooser(n)
            else:
                idx = 0
            task = self.runnable.pop(idx)
            self.step(task)
            for obs in self.observers:
                obs(self)

    def step(self, task: Task) -> None:
        self.steps += 1
        if self.steps > self.max_steps:
            raise StepBudgetExceeded(f"more than {self.max_steps} scheduler steps")
        self.current = task
        task.started = True
        value, exc = task.next_value, task.next_exc
        task.next_value = task.next_exc = None
        if task.yielded:
            # a cancellation that arrived while the task was parked at a plain checkpoint is
            # delivered when it resumes (trio checks after the yield; asyncio's task.cancel())
            task.yielded = False
            if exc is None and task.effectively_cancelled():
                exc = Cancelled()
        try:
            if exc is not None:
                trap = task.ctx.run(task.coro.throw, exc)
            else:
                trap = task.ctx.run(task.coro.send, value)
        except StopIteration as si:
            task.done = True
            task.result = si.value
            self._task_finished(task)
        except _ControlFlow:
            raise
        except BaseException as e:
            task.done = True
            task.exc = e
            self._task_finished(task)
        else:
            assert isinstance(trap, _Trap), trap
            if trap.kind == "yield":
                # plain checkpoint: back of the queue
                if task.effectively_cancelled():
                    self.reschedule(task, exc=Cancelled())
                else:
                    self.reschedule(task)
                    task.yielded = True
            elif trap.kind == "block_nocancel":
                pass
            elif trap.kind == "sleep":
                delay = trap.payload
                with _tr():
                    nonpos = bool(delay <= 0)
                if task.effectively_cancelled():
                    self.reschedule(task, exc=Cancelled())
                elif nonpos:
                    self.reschedule(task)
                    task.yielded = True
                elif isinstance(delay, float) and delay == math.inf:
                    task.abort = lambda: None
                else:
                    with _tr():
                        when = self.clock + delay
                    timer = self.add_timer(when, lambda: self.reschedule(task))
                    task.abort = lambda: self.cancel_timer(timer)
            else:
                assert trap.kind == "block" and task.abort is not None
                if task.effectively_cancelled():
                    abort = task.abort
                    task.abort = None
                    abort()
                    self.reschedule(task, exc=Cancelled())
        finally:
            self.current = None

    def _task_finished(self, task: Task) -> None:
        for scope in task.scopes:
            scope._remove(task)
        if task.parent_tg is not None:
            task.parent_tg._child_finished(task)
        # like a real event loop, a finished task no longer keeps its coroutine, its context variables or its scopes alive
        task.coro = None
        task.ctx = None
        task.scopes = []


_kernel: Kernel | None = None


def kernel() -> Kernel:
    assert _kernel is not None, "no symsched kernel is running"
    return _kernel


async def _yield() -> None:
    await _Trap("yield")


async def _block(abort: Callable[[], None]) -> Any:
    task = kernel().current
    assert task is not None
    task.abort = abort
    return await _Trap("block")


async def _block_nocancel() -> Any:
    return await _Trap("block_nocancel")


class CancelScope(BaseCancelScope):
    def __new__(cls, *, deadline: float = math.inf, shield: bool = False):
        return object.__new__(cls)

    def __init__(self, *, deadline: float = math.inf, shield: bool = False):
        self._deadline = deadline
        self._shield = shield
        self._cancel_called = False
        self._cancelled_caught = False
        self._tasks: list[Task] = []
        self._host: Task | None = None
        self._timer: Timer | None = None
        self._entered = False
        self._exited = False

    def _tasks_all(self) -> list[Task]:
        return sorted(self._tasks, key=lambda t: t.seq)

    def _add(self, task: Task) -> None:
        if not any(t is task for t in self._tasks):
            self._tasks.append(task)

    def _remove(self, task: Task) -> None:
        for i, t in enumerate(self._tasks):
            if t is task:
                del self._tasks[i]
                return

    def __enter__(self):
        if self._entered:
            raise RuntimeError(
                "Each CancelScope may only be used for a single 'with' block"
            )
        self._entered = True
        k = kernel()
        task = k.current
        assert task is not None
        self._host = task
        task.scopes.append(self)
        self._add(task)
        self._arm()
        return self

    def _infinite_deadline(self) -> bool:
        d = self._deadline
        return isinstance(d, float) and d == math.inf

    def _arm(self):
        k = kernel()
        if self._timer is not None:
            k.cancel_timer(self._timer)
            self._timer = None
        if not self._infinite_deadline() and not self._cancel_called:
            with _tr():
                due = bool(self._deadline <= k.clock)
            if due:
                self.cancel()
            else:
                self._timer = k.add_timer(self._deadline, self.cancel)

    def __exit__(self, exc_type, exc_val, exc_tb):
        k = kernel()
        task = k.current
        if task is not self._host or not task.scopes or task.scopes[-1] is not self:
            raise RuntimeError(
                "Attempted to exit a cancel scope that isn't the current tasks's "
                "current cancel scope"
            )
        task.scopes.pop()
        self._remove(task)
        self._exited = True
        if self._timer is not None:
            k.cancel_timer(self._timer)
            self._timer = None
        # trio's rule: swallow our own cancellation unless an enclosing scope that is
        # visible from here (not hidden by our shield) is cancelled as well
        outer_cancelled = (not self._shield) and task.effectively_cancelled()
        if exc_val is not None and self._cancel_called and not outer_cancelled:
            if isinstance(exc_val, Cancelled):
                self._cancelled_caught = True
                return True
            if isinstance(exc_val, BaseExceptionGroup):
                matched, rest = exc_val.split(Cancelled)
                if matched is not None:
                    self._cancelled_caught = True
                    if rest is None:
                        return True
                    raise rest from None
        return False

    def cancel(self, reason: str | None = None) -> None:
        if self._cancel_called:
            return
        self._cancel_called = True
        if self._timer is not None and _kernel is not None:
            _kernel.cancel_timer(self._timer)
            self._timer = None
        if self._entered and not self._exited and _kernel is not None:
            _kernel.deliver_cancellation(self)

    @property
    def deadline(self) -> float:
        return self._deadline

    @deadline.setter
    def deadline(self, value: float) -> None:
        self._deadline = value
        if self._entered and not self._exited:
            self._arm()

    @property
    def cancel_called(self) -> bool:
        return self._cancel_called

    @property
    def cancelled_caught(self) -> bool:
        return self._cancelled_caught

    @property
    def shield(self) -> bool:
        return self._shield

    @shield.setter
    def shield(self, value: bool) -> None:
        if self._shield != value:
            self._shield = value
            if not value and self._entered and not self._exited and _kernel is not None:
                # un-shielding may expose tasks to an outer cancellation
                for task in self._tasks_all():
                    if task.abort is not None and task.effectively_cancelled():
                        abort = task.abort
                        task.abort = None
                        abort()
                        _kernel.reschedule(task, exc=Cancelled())


class Event(BaseEvent):
    def __new__(cls):
        return object.__new__(cls)

    def __init__(self):
        self._set = False
        self._waiters: list[Task] = []

    def set(self) -> None:
        if not self._set:
            self._set = True
            waiters, self._waiters = self._waiters, []
            if waiters:
                k = kernel()
                for t in waiters:
                    k.reschedule(t)

    def is_set(self) -> bool:
        return self._set

    async def wait(self) -> None:
        if self._set:
            await Backend.checkpoint()
            return
        task = kernel().current
        self._waiters.append(task)

        def abort():
            for i, t in enumerate(self._waiters):
                if t is task:
                    del self._waiters[i]
                    return

        await _block(abort)

    def statistics(self):
        from anyio._core._synchronization import EventStatistics

        return EventStatistics(len(self._waiters))


class _TaskStatus(TaskStatus):
    def __init__(self):
        self.waiter: Task | None = None
        self.started_called = False
        self.value = None

    def started(self, value=None):
        if self.started_called:
            raise RuntimeError("called 'started' twice on the same task status")
        self.started_called = True
        self.value = value
        if self.waiter is not None:
            w, self.waiter = self.waiter, None
            kernel().reschedule(w, value=("started", value))


class TaskGroup(abc.TaskGroup):
    def __init__(self):
        self.cancel_scope = CancelScope()
        self._active = False
        self._children: list[Task] = []
        self._exceptions: list[BaseException] = []
        self._waiter: Task | None = None
        self._start_waiters: list[tuple[Task, _TaskStatus]] = []

    async def __aenter__(self):
        self.cancel_scope.__enter__()
        self._active = True
        return self

    async def __aexit__(self, exc_type, exc_val, exc_tb):
        k = kernel()
        try:
            if exc_val is not None:
                self.cancel_scope.cancel()
                if not isinstance(exc_val, Cancelled):
                    self._exceptions.append(exc_val)
            # wait for the children; this wait cannot be aborted.  Exiting a task group
            # is a (shielded) checkpoint even without children, as in trio.
            if self._children:
                self._waiter = k.current
                await _block_nocancel()
                assert not self._children
            else:
                with CancelScope(shield=True):
                    await _yield()
            self._active = False
            if exc_val is None and not self._exceptions:
                # a cancellation that arrived while waiting is delivered here
                if k.current.effectively_cancelled():
                    exc_val = Cancelled()
            excs = self._exceptions
            if excs:
                grp = BaseExceptionGroup("unhandled errors in a TaskGroup", excs)
                if self.cancel_scope.__exit__(type(grp), grp, None):
                    return True
                raise grp
            if isinstance(exc_val, Cancelled):
                if self.cancel_scope.__exit__(type(exc_val), exc_val, None):
                    return True
                raise exc_val
            self.cancel_scope.__exit__(None, None, None)
            return False
        finally:
            self._active = False
            del exc_val

    def _status_of(self, task: Task) -> _TaskStatus | None:
        for t, st in self._start_waiters:
            if t is task:
                return st
        return None

    def _forget_start(self, task: Task) -> None:
        self._start_waiters = [(t, s) for t, s in self._start_waiters if t is not task]

    def _child_finished(self, task: Task) -> None:
        self._children = [t for t in self._children if t is not task]
        st = self._status_of(task)
        self._forget_start(task)
        if st is not None and not st.started_called:
            # exited before started(): the outcome belongs to the caller of start()
            if st.waiter is not None:
                w, st.waiter = st.waiter, None
                kernel().reschedule(w, value=("exited", task))
        elif task.exc is not None:
            if not isinstance(task.exc, Cancelled):
                self._exceptions.append(task.exc)
                self.cancel_scope.cancel()
        if not self._children and self._waiter is not None:
            w, self._waiter = self._waiter, None
            kernel().reschedule(w)

    def _spawn(self, func, args, name, task_status=None, extra_scope=None) -> Task:
        if not self._active:
            raise RuntimeError(
                "This task group is not active; no new tasks can be started."
            )
        k = kernel()
        kwargs = {}
        if task_status is not None:
            kwargs["task_status"] = task_status
        coro = func(*args, **kwargs)
        host = self.cancel_scope._host
        idx = next(i for i, s in enumerate(host.scopes) if s is self.cancel_scope)
        scopes = list(host.scopes[: idx + 1])
        if extra_scope is not None:
            extra_scope._entered = True
            scopes.append(extra_scope)
        task = k.spawn(
            coro,
            name or getattr(func, "__qualname__", "task"),
            scopes,
            contextvars.copy_context(),
            self,
        )
        for s in scopes:
            s._add(task)
        self._children.append(task)
        return task

    def create_task(self, *a, **kw):  # pragma: no cover
        raise NotImplementedError

    def start_soon(self, func, *args, name=None) -> None:
        self._spawn(func, args, name)

    async def start(self, func, *args, name=None):
        k = kernel()
        st = _TaskStatus()
        start_scope = CancelScope()
        task = self._spawn(func, args, name, st, start_scope)
        self._start_waiters.append((task, st))
        caller = k.current
        if caller.effectively_cancelled():
            start_scope.cancel()
        while not st.started_called and not task.done:
            st.waiter = caller

            def abort():
                st.waiter = None

            try:
                kind, payload = await _block(abort)
            except Cancelled:
                # the caller is cancelled: cancel the child being started and wait for it
                start_scope.cancel()
                if not task.done and not st.started_called:
                    st.waiter = caller
                    await _block_nocancel()
                raise
            if kind == "exited":
                break
        if not st.started_called:
            if task.exc is not None:
                raise task.exc
            raise RuntimeError("Child exited without calling task_status.started()")
        return st.value


class _Limiter:
    def __init__(self, total_tokens):
        self.total_tokens = total_tokens


class _Job:
    def __init__(self, coro):
        self.coro = coro
        self.done = False
        self.result = None
        self.exc = None


class _TestRunner:
    """anyio pytest-plugin test runner, used to run /repo/tests on this backend."""

    def __init__(self, options):
        self.kernel = Kernel(options.get("chooser"), options.get("max_steps", 1000000))
        self.jobs: list[_Job] = []
        self.waiting = False
        self.runner_task = None
        self._running = False

    def is_running(self):
        return self._running

    def __enter__(self):
        global _kernel
        self._prev = _kernel
        _kernel = self.kernel
        self.runner_task = self.kernel.spawn(
            self._main(), "test runner", [], contextvars.copy_context(), None
        )
        return self

    def __exit__(self, *a):
        global _kernel
        self.kernel.close_all()
        _kernel = self._prev

    async def _main(self):
        while True:
            while not self.jobs:
                self.waiting = True
                await _block_nocancel()
            job = self.jobs.pop(0)
            try:
                job.result = await job.coro
            except BaseException as e:
                job.exc = e
            job.done = True

    def _call(self, coro):
        job = _Job(coro)
        self.jobs.append(job)
        if self.waiting:
            self.waiting = False
            self.kernel.reschedule(self.runner_task)
        self._running = True
        try:
            self.kernel.run_until(lambda: job.done)
        finally:
            self._running = False
        if job.exc is not None:
            raise job.exc
        return job.result

    def run_asyncgen_fixture(self, fixture_func, kwargs):
        gen = fixture_func(**kwargs)
        value = self._call(gen.asend(None))
        yield value
        try:
            self._call(gen.asend(None))
        except StopAsyncIteration:
            pass
        else:
            self._call(gen.aclose())
            raise RuntimeError("Async generator fixture did not stop")

    def run_fixture(self, fixture_func, kwargs):
        return self._call(fixture_func(**kwargs))

    def run_test(self, test_func, kwargs):
        self._call(test_func(**kwargs))


class _SignalReceiver:
    """Model of anyio.open_signal_receiver: signals are injected by the harness through
    ``symsched.raise_signal`` (no OS involvement) or, when ``use_os_signals`` is set (the
    repo's own tests call signal.raise_signal), through real handlers."""

    def __init__(self, signals):
        self.signals = signals
        self.queue: list[int] = []
        self.waiter: Task | None = None
        self._old: dict = {}

    def __enter__(self):
        k = kernel()
        k.signal_receivers.append(self)
        if use_os_signals:
            import signal as _signal

            for s in self.signals:
                self._old[s] = _signal.signal(
                    s, lambda signum, frame, self=self: self.deliver(signum)
                )
        return self

    def __exit__(self, *a):
        k = kernel()
        k.signal_receivers = [r for r in k.signal_receivers if r is not self]
        if self._old:
            import signal as _signal

            for s, h in self._old.items():
                _signal.signal(s, h)

    def deliver(self, signum):
        self.queue.append(signum)
        if self.waiter is not None:
            w, self.waiter = self.waiter, None
            kernel().reschedule(w)

    def __aiter__(self):
        return self

    async def __anext__(self):
        await Backend.checkpoint()
        while not self.queue:
            self.waiter = kernel().current

            def abort():
                self.waiter = None

            await _block(abort)
        return self.queue.pop(0)


use_os_signals = False


def raise_signal(signum) -> bool:
    """Deliver a signal to the model's receivers.  Returns False if nobody listens."""
    hit = False
    for r in list(kernel().signal_receivers):
        if signum in r.signals:
            r.deliver(signum)
            hit = True
    return hit


class Backend:
    last_kernel: Kernel | None = None

    @classmethod
    def run(cls, func, args, kwargs, options):
        global _kernel
        prev = _kernel
        k = _kernel = Kernel(options.get("chooser"), options.get("max_steps", 100000))
        for obs in options.get("observers", ()):
            k.observers.append(obs)
        on_start = options.get("on_start")
        if on_start is not None:
            on_start(k)
        try:
            return k.run(func(*args, **kwargs))
        finally:
            cls.last_kernel = k
            _kernel = prev

    @classmethod
    def current_token(cls):
        return kernel()

    @classmethod
    def current_time(cls) -> float:
        return kernel().clock

    @classmethod
    def cancelled_exception_class(cls):
        return Cancelled

    @classmethod
    async def checkpoint(cls) -> None:
        task = kernel().current
        if task.effectively_cancelled():
            raise Cancelled()
        await _yield()

    @classmethod
    async def checkpoint_if_cancelled(cls) -> None:
        task = kernel().current
        if task.effectively_cancelled():
            raise Cancelled()

    @classmethod
    async def cancel_shielded_checkpoint(cls) -> None:
        with CancelScope(shield=True):
            await _yield()

    @classmethod
    async def sleep(cls, delay: float) -> None:
        task = kernel().current
        if task.effectively_cancelled():
            raise Cancelled()
        await _Trap("sleep", delay)

    @classmethod
    def create_cancel_scope(cls, *, deadline=math.inf, shield=False):
        return CancelScope(deadline=deadline, shield=shield)

    @classmethod
    def current_effective_deadline(cls) -> float:
        task = kernel().current
        d = math.inf
        for scope in reversed(task.scopes):
            if scope._cancel_called:
                return -math.inf
            d = min(d, scope._deadline)
            if scope._shield:
                break
        return d

    @classmethod
    def create_task_group(cls):
        return TaskGroup()

    @classmethod
    def create_event(cls):
        return Event()

    @classmethod
    def check_cancelled(cls) -> None:
        task = kernel().current
        if task is not None and task.effectively_cancelled():
            raise Cancelled()

    @classmethod
    async def wait_all_tasks_blocked(cls):
        k = kernel()
        await cls.checkpoint()
        while k.runnable:
            task = k.current
            k.idle_waiters.append(task)

            def abort(t=task):
                k.idle_waiters = [w for w in k.idle_waiters if w is not t]

            await _block(abort)

    @classmethod
    def current_default_thread_limiter(cls):
        k = kernel()
        if k.limiter is None:
            k.limiter = _Limiter(40)
        return k.limiter

    @classmethod
    def create_capacity_limiter(cls, total_tokens):
        return _Limiter(total_tokens)

    @classmethod
    def create_test_runner(cls, options):
        return _TestRunner(options)

    @classmethod
    def open_signal_receiver(cls, *signals):
        return _SignalReceiver(signals)

    @classmethod
    def get_current_task(cls):
        from anyio._core._testing import TaskInfo

        t = kernel().current
        return TaskInfo(t.seq, None, t.name, t.coro)

    @classmethod
    def get_running_tasks(cls):
        from anyio._core._testing import TaskInfo

        return [TaskInfo(t.seq, None, t.name, t.coro) for t in kernel().live_tasks()]


_eventloop.loaded_backends["symsched"] = Backend  # type: ignore[assignment]


def run(func, *args, chooser=None, max_steps=100000, observers=(), on_start=None):
    return anyio.run(
        func,
        *args,
        backend="symsched",
        backend_options={
            "chooser": chooser,
            "max_steps": max_steps,
            "observers": observers,
            "on_start": on_start,
        },
    )
