"""pytest plugin: run the repository's own anyio tests on the symsched backend.

Usage: pytest -p symsched.pytest_plugin   (with /verif on PYTHONPATH)
Environment: SYMSCHED_SEED=<int> selects a seeded random chooser instead of FIFO.
"""
import os
import random

import anyio._core._eventloop as ev
import pytest

import symsched  # registers the backend

symsched.use_os_signals = True
ev.BACKENDS = ("symsched",)


def _options():
    seed = os.environ.get("SYMSCHED_SEED")
    if seed is None:
        return {}
    rng = random.Random(int(seed))
    return {"chooser": lambda n: rng.randrange(n)}


@pytest.fixture(params=["symsched"])
def anyio_backend(request):
    return ("symsched", _options())
