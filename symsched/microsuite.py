"""Differential micro-suite: small anyio programs whose observable result does not depend
on the schedule are run on asyncio, trio and symsched (FIFO and seeded random choosers)
and must agree.  A disagreement is a defect of the model backend (harness error)."""
from __future__ import annotations

import random
import sys

import anyio
from anyio import (
    CancelScope,
    Event,
    create_memory_object_stream,
    create_task_group,
    fail_after,
    get_cancelled_exc_class,
    move_on_after,
    sleep,
)
from anyio.lowlevel import cancel_shielded_checkpoint, checkpoint


def name(e):
    if isinstance(e, BaseExceptionGroup):
        return ["group"] + sorted((name(x) for x in e.exceptions), key=str)
    if isinstance(e, get_cancelled_exc_class()):
        return "Cancelled"
    return type(e).__name__


async def outcome(coro_fn):
    try:
        return ["ok", await coro_fn()]
    except BaseException as e:  # noqa
        if isinstance(e, get_cancelled_exc_class()):
            return ["exc", "Cancelled"]
        return ["exc", name(e)]


# ---- programs ------------------------------------------------------------------------
async def p_scope_swallows_own_cancel():
    with CancelScope() as s:
        s.cancel()
        await sleep(0)
        return "not reached"
    return [s.cancel_called, s.cancelled_caught]


async def p_cancel_is_level_triggered():
    log = []
    with CancelScope() as s:
        s.cancel()
        for i in range(3):
            try:
                await checkpoint()
            except get_cancelled_exc_class():
                log.append(i)
        log.append("end")
    return log


async def p_shield_protects():
    log = []
    with CancelScope() as outer:
        outer.cancel()
        with CancelScope(shield=True):
            await sleep(0)
            log.append("shielded ran")
        try:
            await sleep(0)
        except get_cancelled_exc_class():
            log.append("cancelled after shield")
            raise
    return log


async def p_nested_outer_cancel_not_swallowed_by_inner():
    with CancelScope() as outer:
        with CancelScope() as inner:
            outer.cancel()
            await sleep(0)
        return ["inner swallowed", inner.cancelled_caught]
    return ["outer caught", outer.cancelled_caught, inner.cancelled_caught]


async def p_inner_cancel_with_outer_cancelled():
    with CancelScope() as outer:
        with CancelScope() as inner:
            inner.cancel()
            outer.cancel()
            await sleep(0)
        return "after inner"
    return ["outer", outer.cancelled_caught, inner.cancelled_caught]


async def p_tg_child_error_cancels_siblings():
    log = []

    async def bad():
        await sleep(0)
        raise ValueError("x")

    async def good():
        try:
            await sleep(100)
        except get_cancelled_exc_class():
            log.append("sibling cancelled")
            raise

    try:
        async with create_task_group() as tg:
            tg.start_soon(good)
            tg.start_soon(bad)
    except BaseException as e:  # noqa
        log.append(name(e))
    return log


async def p_tg_body_error_wrapped():
    try:
        async with create_task_group():
            raise KeyError("k")
    except BaseException as e:  # noqa
        return name(e)


async def p_tg_two_errors():
    async def bad(exc):
        raise exc

    try:
        async with create_task_group() as tg:
            tg.start_soon(bad, ValueError())
            tg.start_soon(bad, KeyError())
    except BaseException as e:  # noqa
        return name(e)


async def p_tg_waits_for_children():
    log = []

    async def child():
        await sleep(0)
        await sleep(0)
        log.append("child done")

    async with create_task_group() as tg:
        tg.start_soon(child)
        log.append("body done")
    log.append("after")
    return log


async def p_tg_cancel_scope_cancel():
    log = []

    async def child():
        try:
            await sleep(100)
        finally:
            log.append("child finalised")

    async with create_task_group() as tg:
        tg.start_soon(child)
        await sleep(0)
        tg.cancel_scope.cancel()
    log.append("after")
    return log


async def p_start_returns_value():
    async def svc(*, task_status):
        await sleep(0)
        task_status.started("ready")
        await sleep(0)

    async with create_task_group() as tg:
        v = await tg.start(svc)
    return v


async def p_start_child_raises_before_started():
    async def svc(*, task_status):
        raise RuntimeError("early")

    try:
        async with create_task_group() as tg:
            await tg.start(svc)
        return "no error"
    except BaseException as e:  # noqa
        return name(e)


async def p_start_child_exits_without_started():
    async def svc(*, task_status):
        return None

    try:
        async with create_task_group() as tg:
            await tg.start(svc)
        return "no error"
    except BaseException as e:  # noqa
        return name(e)


async def p_start_after_close():
    async def svc():
        pass

    async with create_task_group() as tg:
        pass
    try:
        tg.start_soon(svc)
        return "accepted"
    except BaseException as e:  # noqa
        return name(e)


async def p_start_cancelled_caller():
    log = []

    async def svc(*, task_status):
        try:
            await sleep(100)
        except get_cancelled_exc_class():
            log.append("child cancelled before started")
            raise

    async with create_task_group() as tg:
        with move_on_after(1) as scope:
            await tg.start(svc)
        log.append(["timed out", scope.cancelled_caught])
    return log


async def p_event_wakes_all():
    ev = Event()
    log = []

    async def w(i):
        await ev.wait()
        log.append(i)

    async with create_task_group() as tg:
        for i in range(3):
            tg.start_soon(w, i)
        await sleep(0)
        await sleep(0)
        ev.set()
    return sorted(log)


async def p_event_wait_cancelled():
    ev = Event()
    with move_on_after(1) as s:
        await ev.wait()
    return [s.cancelled_caught, ev.is_set()]


async def p_move_on_after_fires():
    with move_on_after(1) as s:
        await sleep(5)
    return s.cancelled_caught


async def p_move_on_after_not_needed():
    with move_on_after(5) as s:
        await sleep(1)
    return s.cancelled_caught


async def p_fail_after():
    try:
        with fail_after(1):
            await sleep(5)
    except BaseException as e:  # noqa
        return name(e)


async def p_deadline_change():
    with CancelScope() as s:
        s.deadline = anyio.current_time() + 1
        await sleep(5)
    return s.cancelled_caught


async def p_memory_stream_order():
    send, recv = create_memory_object_stream[int](3)
    out = []
    async with send, recv:
        for i in range(3):
            send.send_nowait(i)
        try:
            send.send_nowait(99)
        except anyio.WouldBlock:
            out.append("full")
        for _ in range(3):
            out.append(await recv.receive())
    return out


async def p_memory_stream_direct_handoff():
    send, recv = create_memory_object_stream[int](0)
    out = []

    async def consumer():
        async with recv:
            out.append(await recv.receive())

    async with create_task_group() as tg:
        tg.start_soon(consumer)
        await anyio.wait_all_tasks_blocked()
        send.send_nowait(7)
    return out


async def p_memory_stream_closed_receiver():
    send, recv = create_memory_object_stream[int](1)
    recv.close()
    try:
        send.send_nowait(1)
        return "sent"
    except BaseException as e:  # noqa
        return name(e)
    finally:
        send.close()


async def p_memory_stream_closed_sender_side():
    send, recv = create_memory_object_stream[int](1)
    send.close()
    try:
        send.send_nowait(1)
        return "sent"
    except BaseException as e:  # noqa
        return name(e)
    finally:
        recv.close()


async def p_shielded_checkpoint_under_cancel():
    with CancelScope() as s:
        s.cancel()
        await cancel_shielded_checkpoint()
        return "survived"


async def p_exit_stack_teardown_under_cancel():
    from contextlib import AsyncExitStack

    log = []

    async def cb():
        try:
            await sleep(0)
            log.append("cb completed")
        except get_cancelled_exc_class():
            log.append("cb cancelled")
            raise

    with CancelScope() as s:
        async with AsyncExitStack() as st:
            st.push_async_callback(cb)
            s.cancel()
    return [log, s.cancelled_caught]


async def p_contextvars_inherited_at_spawn():
    import contextvars

    var = contextvars.ContextVar("v", default="unset")
    out = []

    async def child():
        out.append(var.get())
        var.set("child")

    var.set("parent")
    async with create_task_group() as tg:
        tg.start_soon(child)
        var.set("later")
    out.append(var.get())
    return out


async def p_cancel_between_checkpoint_and_resume():
    log = []

    async def victim(scope):
        with scope:
            await sleep(0)
            log.append("after first checkpoint")
            await sleep(0)
            log.append("after second checkpoint")

    scope = CancelScope()
    async with create_task_group() as tg:
        tg.start_soon(victim, scope)
        await anyio.wait_all_tasks_blocked() if False else None
        scope.cancel()
    return log


async def p_group_of_cancelled_and_error():
    async def bad():
        raise ValueError()

    async def sleeper():
        await sleep(100)

    try:
        with CancelScope():
            async with create_task_group() as tg:
                tg.start_soon(sleeper)
                tg.start_soon(bad)
    except BaseException as e:  # noqa
        return name(e)
    return "nothing"


async def p_current_time_advances_with_sleep():
    t0 = anyio.current_time()
    await sleep(2)
    return round(anyio.current_time() - t0) >= 2


PROGRAMS = [v for k, v in sorted(globals().items()) if k.startswith("p_")]


def run_on(backend, fn, options=None):
    try:
        return anyio.run(outcome, fn, backend=backend, backend_options=options or {})
    except BaseException as e:  # noqa
        return ["runner-exc", type(e).__name__, str(e)[:80]]


def main() -> bool:
    import symsched  # noqa: F401  (registers the backend)

    bad = 0
    for fn in PROGRAMS:
        ref_a = run_on("asyncio", fn)
        ref_t = run_on("trio", fn)
        res = [run_on("symsched", fn)]
        for seed in (1, 2, 3):
            rng = random.Random(seed)
            res.append(run_on("symsched", fn, {"chooser": lambda n, rng=rng: rng.randrange(n)}))
        if ref_a != ref_t:
            # the two real backends themselves disagree: not usable as a reference
            print(f"microsuite: {fn.__name__}: asyncio={ref_a} trio={ref_t} differ; symsched={res[0]} (informational)")
            continue
        if any(r != ref_a for r in res):
            bad += 1
            print(f"microsuite MISMATCH {fn.__name__}: real={ref_a} symsched={res}")
    print(f"backend micro-suite: {len(PROGRAMS)} programs on asyncio/trio/symsched(FIFO + 3 random): {bad} mismatches")
    return bad == 0


if __name__ == "__main__":
    sys.exit(0 if main() else 2)
