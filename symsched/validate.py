"""Validate the model backend (Serval's lesson: push the repo's own tests through the
interpreter).  /repo/tests runs on symsched with the FIFO chooser and with seeded random
choosers; the set of failing tests must be exactly the baseline's always-fail set (four
click-related CLI tests that fail on every backend in this sandbox).  Then the
differential micro-suite (symsched/microsuite.py) compares small anyio programs on
asyncio, trio and symsched.  Any disagreement is a harness error (exit 2)."""
import os
import re
import subprocess
import sys
from concurrent.futures import ThreadPoolExecutor

ROOT = os.path.dirname(os.path.dirname(os.path.abspath(__file__)))
ALWAYS_FAIL = {
    "tests/test_cli.py::test_run_bad_override",
    "tests/test_cli.py::test_run_bad_path",
    "tests/test_cli.py::test_run_missing_root_component_config",
    "tests/test_cli.py::test_run_missing_root_component_type",
}


def run_suite(seed):
    env = dict(os.environ, PYTHONPATH=ROOT, PYTHONDONTWRITEBYTECODE="1")
    env.pop("SYMSCHED_SEED", None)
    if seed is not None:
        env["SYMSCHED_SEED"] = str(seed)
    p = subprocess.run(
        [sys.executable, "-m", "pytest", "-q", "-p", "no:cacheprovider", "-p", "symsched.pytest_plugin",
         "--tb=line", "-rfE", "--timeout=600", "-W", "ignore"],
        cwd=os.environ.get("ASPHALT_REPO", "/repo"), env=env, capture_output=True, text=True,
    )
    bad = set(re.findall(r"^(?:FAILED|ERROR) (\S+)", p.stdout, re.M))
    m = re.search(r"(\d+) passed", p.stdout)
    return seed, bad, int(m.group(1)) if m else 0, p.stdout[-1500:]


def main():
    ok = True
    seeds = [None, 1, 2, 3]
    with ThreadPoolExecutor(4) as ex:
        for seed, bad, passed, tail in ex.map(run_suite, seeds):
            unexpected = bad - ALWAYS_FAIL
            label = "FIFO" if seed is None else f"random seed {seed}"
            if unexpected or passed < 100:
                ok = False
                print(f"backend validation [{label}]: UNEXPECTED failures {sorted(unexpected)} passed={passed}\n{tail}")
            else:
                print(f"backend validation [{label}]: {passed} passed, only the {len(bad)} baseline always-fail tests fail")
    try:
        from symsched import microsuite
    except ImportError:
        microsuite = None
    if microsuite is not None:
        ok = microsuite.main() and ok
    return 0 if ok else 2


if __name__ == "__main__":
    sys.exit(main())
